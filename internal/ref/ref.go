// Package ref is the reference model (oracle) of BIP39 used by every check.
//
// It is deliberately written with a different algorithm and different data
// source than the implementation under test: bit arrays instead of big
// integers, the golden word files under /verif/golden instead of the
// repository's generated Go slices, and a hand-written PBKDF2 on top of
// crypto/hmac instead of x/crypto/pbkdf2.
package ref

import (
	"bufio"
	"crypto/hmac"
	"crypto/sha256"
	"crypto/sha512"
	"encoding/hex"
	"fmt"
	"os"
	"path/filepath"
	"strings"
)

// LangNames are the ten supported languages in the order of the Language
// constants (0..9) as stated by the properties (C16).
var LangNames = []string{
	"ChineseSimplified", "ChineseTraditional", "English", "French", "Italian",
	"Japanese", "Korean", "Spanish", "Czech", "Portuguese",
}

// FileNames maps language number to the golden file stem.
var FileNames = []string{
	"chinese_simplified", "chinese_traditional", "english", "french", "italian",
	"japanese", "korean", "spanish", "czech", "portuguese",
}

// Digests are the pinned SHA-256 digests of the LF-terminated golden files.
var Digests = map[string]string{
	"chinese_simplified":  "5c5942792bd8340cb8b27cd592f1015edf56a8c5b26276ee18a482428e7c5726",
	"chinese_traditional": "417b26b3d8500a4ae3d59717d7011952db6fc2fb84b807f3f94ac734e89c1b5f",
	"czech":               "7e80e161c3e93d9554c2efb78d4e3cebf8fc727e9c52e03b83b94406bdcc95fc",
	"english":             "2f5eed53a4727b4bf8880d8f3f199efc90e58503646d9ff8eff3a2ed3b24dbda",
	"french":              "ebc3959ab7801a1df6bac4fa7d970652f1df76b683cd2f4003c941c63d517e59",
	"italian":             "d392c49fdb700a24cd1fceb237c1f65dcc128f6b34a8aacb58b59384b5c648c2",
	"japanese":            "2eed0aef492291e061633d7ad8117f1a2b03eb80a29d0e4e3117ac2528d05ffd",
	"korean":              "9e95f86c167de88f450f0aaf89e87f6624a57f973c67b516e338e8e8b8897f60",
	"portuguese":          "2685e9c194c82ae67e10ba59d9ea5345a23dc093e92276fc5361f6667d79cd3f",
	"spanish":             "46846a5a0139d1e3cb77293e521c2865f7bcdb82c44e8d0a06a2cd0ecba48c0b",
}

const NLang = 10
const Japanese = 5

// Model holds the golden lists and their inverse dictionaries.
type Model struct {
	List [NLang][]string
	Dict [NLang]map[string]int
}

// Load reads and verifies the ten golden files.
func Load(dir string) (*Model, error) { return LoadLangs(dir, nil) }

// LoadLangs reads and verifies only the given languages (nil = all); used by the
// one-process-per-execution engines, whose start-up cost matters.
func LoadLangs(dir string, only map[int]bool) (*Model, error) {
	m := &Model{}
	for l, stem := range FileNames {
		if only != nil && !only[l] {
			continue
		}
		p := filepath.Join(dir, stem+".txt")
		data, err := os.ReadFile(p)
		if err != nil {
			return nil, err
		}
		sum := sha256.Sum256(data)
		if hex.EncodeToString(sum[:]) != Digests[stem] {
			return nil, fmt.Errorf("golden %s: digest mismatch", p)
		}
		sc := bufio.NewScanner(strings.NewReader(string(data)))
		for sc.Scan() {
			m.List[l] = append(m.List[l], sc.Text())
		}
		if len(m.List[l]) != 2048 {
			return nil, fmt.Errorf("golden %s: %d words", p, len(m.List[l]))
		}
		m.Dict[l] = make(map[string]int, 2048)
		for i, w := range m.List[l] {
			if _, dup := m.Dict[l][w]; dup {
				return nil, fmt.Errorf("golden %s: duplicate %q", p, w)
			}
			m.Dict[l][w] = i
		}
	}
	return m, nil
}

// Sep returns the BIP39 separator used when generating for language l.
func Sep(l int) string {
	if l == Japanese {
		return "\u3000"
	}
	return " "
}

// ValidEntLen reports whether n is one of 16,20,24,28,32.
func ValidEntLen(n int) bool { return n >= 16 && n <= 32 && n%4 == 0 }

// ValidWordCount reports whether n is one of 12,15,18,21,24.
func ValidWordCount(n int) bool { return n >= 12 && n <= 24 && n%3 == 0 }

// bitsOf returns the bits of b, most significant first.
func bitsOf(b []byte) []uint8 {
	out := make([]uint8, 0, len(b)*8)
	for _, x := range b {
		for k := 7; k >= 0; k-- {
			out = append(out, (x>>uint(k))&1)
		}
	}
	return out
}

// Indices returns the 11-bit word indices of entropy||checksum: the bit string
// is the entropy followed by the first hash byte, and word i is bits
// [11i, 11i+11) of it read most-significant first (only the first ENT/32 bits
// of the hash byte are ever reached because 11*words = ENT + ENT/32).
func Indices(ent []byte) []int {
	h := sha256.Sum256(ent)
	buf := make([]byte, len(ent)+1)
	copy(buf, ent)
	buf[len(ent)] = h[0]
	nw := (len(ent)*8 + len(ent)*8/32) / 11
	out := make([]int, nw)
	for i := 0; i < nw; i++ {
		v := 0
		for k := 11 * i; k < 11*i+11; k++ {
			v = v<<1 | int(buf[k>>3]>>(7-uint(k&7)))&1
		}
		out[i] = v
	}
	return out
}

// Words returns the reference word sequence for entropy ent in language l.
func (m *Model) Words(ent []byte, l int) []string {
	idx := Indices(ent)
	w := make([]string, len(idx))
	for i, x := range idx {
		w[i] = m.List[l][x]
	}
	return w
}

// Encode is the reference NewMnemonicByEntropy (entropy length must be valid).
func (m *Model) Encode(ent []byte, l int) string {
	return strings.Join(m.Words(ent, l), Sep(l))
}

// DecodeIdx turns word indices back into entropy bytes and checksum bits.
func DecodeIdx(idx []int) (ent []byte, cs []uint8) {
	bits := make([]uint8, 0, len(idx)*11)
	for _, x := range idx {
		for k := 10; k >= 0; k-- {
			bits = append(bits, uint8((x>>uint(k))&1))
		}
	}
	csn := len(idx) / 3
	entBits := len(bits) - csn
	ent = make([]byte, (entBits+7)/8)
	for i := 0; i < entBits; i++ {
		ent[i/8] |= bits[i] << uint(7-i%8)
	}
	return ent, bits[entBits:]
}

// Decode maps words to entropy; ok=false if a word is not in the list.
func (m *Model) Decode(words []string, l int) (ent []byte, cs []uint8, badWord int) {
	idx := make([]int, len(words))
	for i, w := range words {
		x, ok := m.Dict[l][w]
		if !ok {
			return nil, nil, i
		}
		idx[i] = x
	}
	ent, cs = DecodeIdx(idx)
	return ent, cs, -1
}

// ChecksumOK reports whether cs equals the leading bits of SHA-256(ent).
func ChecksumOK(ent []byte, cs []uint8) bool {
	h := sha256.Sum256(ent)
	hb := bitsOf(h[:1])
	if len(cs) > 8 {
		return false
	}
	for i := range cs {
		if hb[i] != cs[i] {
			return false
		}
	}
	return true
}

// Verdict classes of the reference validator.
const (
	VValid    = "valid"
	VCount    = "count"
	VUnknown  = "unknown-word"
	VChecksum = "checksum"
)

// ValidateTokens is the reference validator on an already split token list.
func (m *Model) ValidateTokens(tokens []string, l int) (verdict string, badWord int) {
	if !ValidWordCount(len(tokens)) {
		return VCount, -1
	}
	if l < 0 || l >= NLang {
		return VUnknown, 0
	}
	ent, cs, bad := m.Decode(tokens, l)
	if bad >= 0 {
		return VUnknown, bad
	}
	if !ChecksumOK(ent, cs) {
		return VChecksum, -1
	}
	return VValid, -1
}

// IsUnicodeSpace: White_Space code points (Unicode), used to split the NFKD
// form into "whitespace-separated tokens" as the property C03 words it.
func IsUnicodeSpace(r rune) bool {
	switch r {
	case 0x09, 0x0A, 0x0B, 0x0C, 0x0D, 0x20, 0x85, 0xA0, 0x1680, 0x2028, 0x2029, 0x202F, 0x205F, 0x3000:
		return true
	}
	return r >= 0x2000 && r <= 0x200A
}

// SplitSpace splits on runs of Unicode white space, dropping empty tokens.
func SplitSpace(s string) []string {
	return strings.FieldsFunc(s, IsUnicodeSpace)
}

// ValidateNFKD is the reference validator on a string that is already in
// NFKD form (the caller obtains that form from the independent Unicode oracle
// or by construction).
func (m *Model) ValidateNFKD(nfkd string, l int) string {
	v, _ := m.ValidateTokens(SplitSpace(nfkd), l)
	return v
}

// PBKDF2SHA512 is RFC 8018 PBKDF2 with HMAC-SHA512, written out by hand.
func PBKDF2SHA512(password, salt []byte, iter, keyLen int) []byte {
	prf := hmac.New(sha512.New, password)
	hl := prf.Size()
	nb := (keyLen + hl - 1) / hl
	var out []byte
	for blk := 1; blk <= nb; blk++ {
		prf.Reset()
		prf.Write(salt)
		prf.Write([]byte{byte(blk >> 24), byte(blk >> 16), byte(blk >> 8), byte(blk)})
		u := prf.Sum(nil)
		t := append([]byte(nil), u...)
		for i := 1; i < iter; i++ {
			prf.Reset()
			prf.Write(u)
			u = prf.Sum(nil)
			for k := range t {
				t[k] ^= u[k]
			}
		}
		out = append(out, t...)
	}
	return out[:keyLen]
}

// Seed is the reference BIP39 seed for arguments already in NFKD form.
func Seed(mnemonicNFKD, passNFKD string) []byte {
	return PBKDF2SHA512([]byte(mnemonicNFKD), []byte("mnemonic"+passNFKD), 2048, 64)
}

// published BIP39 test vectors (Trezor's vectors.json, passphrase "TREZOR"), written down from
// memory and cross-checked against CPython's hashlib: entropy, English mnemonic, seed.
var publishedVectors = [][3]string{
	{"00000000000000000000000000000000", "abandon abandon abandon abandon abandon abandon abandon abandon abandon abandon abandon about", "c55257c360c07c72029aebc1b53c05ed0362ada38ead3e3e9efa3708e53495531f09a6987599d18264c1e1c92f2cf141630c7a3c4ab7c81b2f001698e7463b04"},
	{"7f7f7f7f7f7f7f7f7f7f7f7f7f7f7f7f", "legal winner thank year wave sausage worth useful legal winner thank yellow", "2e8905819b8723fe2c1d161860e5ee1830318dbf49a83bd451cfb8440c28bd6fa457fe1296106559a3c80937a1c1069be3a3a5bd381ee6260e8d9739fce1f607"},
	{"80808080808080808080808080808080", "letter advice cage absurd amount doctor acoustic avoid letter advice cage above", "d71de856f81a8acc65e6fc851a38d4d7ec216fd0796d0a6827a3ad6ed5511a30fa280f12eb2e47ed2ac03b5c462a0358d18d69fe4f985ec81778c1b370b652a8"},
	{"ffffffffffffffffffffffffffffffff", "zoo zoo zoo zoo zoo zoo zoo zoo zoo zoo zoo wrong", "ac27495480225222079d7be181583751e86f571027b0497b5b5d11218e0a8a13332572917f0f8e5a589620c6f15b11c61dee327651a14c34e18231052e48c069"},
	{"0000000000000000000000000000000000000000000000000000000000000000", "abandon abandon abandon abandon abandon abandon abandon abandon abandon abandon abandon abandon abandon abandon abandon abandon abandon abandon abandon abandon abandon abandon abandon art", "bda85446c68413707090a52022edd26a1c9462295029f2e60cd7c4f2bbd3097170af7a4d73245cafa9c3cca8d561a7c3de6f5d4a10be8ed2a5e608d68f92fcc8"},
	{"ffffffffffffffffffffffffffffffffffffffffffffffffffffffffffffffff", "zoo zoo zoo zoo zoo zoo zoo zoo zoo zoo zoo zoo zoo zoo zoo zoo zoo zoo zoo zoo zoo zoo zoo vote", "dd48c104698c30cfe2b6142103248622fb7bb0ff692eebb00089b32d22484e1613912f0a5b694407be899ffd31ed3992c456cdf60f5d4564b8ba3f05a69890ad"},
}

// SelfTest checks the reference model (not the code under test) against the
// published vectors: encoder, decoder, validator and PBKDF2.
func (m *Model) SelfTest() error {
	const english = 2
	if m.List[english] == nil {
		return nil
	}
	for _, v := range publishedVectors {
		e, _ := hex.DecodeString(v[0])
		if got := m.Encode(e, english); got != v[1] {
			return fmt.Errorf("reference encoder: %s -> %q, published vector %q", v[0], got, v[1])
		}
		words := strings.Split(v[1], " ")
		if verdict, _ := m.ValidateTokens(words, english); verdict != VValid {
			return fmt.Errorf("reference validator rejects the published vector %q", v[1])
		}
		if dec, _, bad := m.Decode(words, english); bad >= 0 || hex.EncodeToString(dec) != v[0] {
			return fmt.Errorf("reference decoder: %q -> %x", v[1], dec)
		}
		if got := hex.EncodeToString(Seed(v[1], "TREZOR")); got != v[2] {
			return fmt.Errorf("reference PBKDF2: seed of %q = %s, published %s", v[1], got, v[2])
		}
	}
	return nil
}
