// Package enum holds the bounded-exhaustive enumerators shared by the checks.
package enum

import (
	"crypto/sha256"
	"encoding/binary"
)

// EntLens are the five valid entropy sizes in bytes.
var EntLens = []int{16, 20, 24, 28, 32}

// Backgrounds used to fill the bits outside an enumerated window.
var Backgrounds = []byte{0x00, 0xFF, 0x55, 0xAA}

func fill(L int, b byte) []byte {
	e := make([]byte, L)
	for i := range e {
		e[i] = b
	}
	return e
}

func setBit(e []byte, pos int, v uint) {
	if v&1 == 1 {
		e[pos/8] |= 1 << uint(7-pos%8)
	} else {
		e[pos/8] &^= 1 << uint(7-pos%8)
	}
}

func flipBit(e []byte, pos int) { e[pos/8] ^= 1 << uint(7-pos%8) }

// Emit receives one entropy; the slice is owned by the callee (fresh copy).
type Emit func(e []byte)

// Win enumerates, for entropy size L, every 11-bit window p, every value of
// the entropy bits inside that window, on the first nbg backgrounds.
func Win(L, nbg int, emit Emit) {
	N := 8 * L
	n := 3 * L / 4
	for bg := 0; bg < nbg; bg++ {
		for p := 0; p < n; p++ {
			lo := p * 11
			w := 11
			if lo+w > N {
				w = N - lo
			}
			for v := 0; v < 1<<uint(w); v++ {
				e := fill(L, Backgrounds[bg])
				for k := 0; k < w; k++ {
					setBit(e, lo+k, uint(v>>uint(w-1-k)))
				}
				emit(e)
			}
		}
	}
}

// Ham enumerates every entropy within Hamming distance <= r (r in 0..3) of
// all-zeros and of all-ones.
func Ham(L, r int, emit Emit) {
	N := 8 * L
	for _, b := range []byte{0x00, 0xFF} {
		emit(fill(L, b))
		if r >= 1 {
			for i := 0; i < N; i++ {
				e := fill(L, b)
				flipBit(e, i)
				emit(e)
			}
		}
		if r >= 2 {
			for i := 0; i < N; i++ {
				for j := i + 1; j < N; j++ {
					e := fill(L, b)
					flipBit(e, i)
					flipBit(e, j)
					emit(e)
				}
			}
		}
		if r >= 3 {
			for i := 0; i < N; i++ {
				for j := i + 1; j < N; j++ {
					for k := j + 1; k < N; k++ {
						e := fill(L, b)
						flipBit(e, i)
						flipBit(e, j)
						flipBit(e, k)
						emit(e)
					}
				}
			}
		}
	}
}

// Run enumerates every 1^a 0^b 1^c and 0^a 1^b 0^c with a+b+c = 8L.
func Run(L int, emit Emit) {
	N := 8 * L
	for _, first := range []uint{1, 0} {
		for a := 0; a <= N; a++ {
			for b := 0; a+b <= N; b++ {
				e := make([]byte, L)
				for i := 0; i < N; i++ {
					v := first
					if i >= a && i < a+b {
						v = 1 - first
					}
					setBit(e, i, v)
				}
				emit(e)
			}
		}
	}
}

var blkAlphabet = [][4]byte{{0, 0, 0, 0}, {0xFF, 0xFF, 0xFF, 0xFF}, {0, 0, 0, 1}, {0x80, 0, 0, 0}}

// Blk enumerates every entropy whose 32-bit blocks come from a 4-letter
// alphabet (4^(L/4) members).
func Blk(L int, emit Emit) {
	nb := L / 4
	total := 1 << uint(2*nb)
	for x := 0; x < total; x++ {
		e := make([]byte, L)
		for k := 0; k < nb; k++ {
			a := blkAlphabet[(x>>uint(2*k))&3]
			copy(e[4*k:], a[:])
		}
		emit(e)
	}
}

// Cs enumerates counter-valued entropies on two backgrounds (counter in the
// last 4 bytes over zeros, and in the first 4 bytes over ones) until, for
// size L, every value of the first SHA-256 byte AND every 11-bit value of the
// last word (whose low ENT/32 bits are checksum bits and therefore cannot be
// set directly) has been seen. The number of members is data dependent but
// deterministic. limit caps the counter (reported by the caller if hit).
func Cs(L int, limit uint32, emit Emit) (fullCoverage bool) {
	cs := uint(L / 4)
	for variant := 0; variant < 2; variant++ {
		var seen [256]bool
		var seenLast [2048]bool
		left, leftLast := 256, 2048
		for c := uint32(0); left > 0 || leftLast > 0; c++ {
			if c >= limit {
				return false
			}
			e := make([]byte, L)
			if variant == 0 {
				binary.BigEndian.PutUint32(e[L-4:], c)
			} else {
				for i := range e {
					e[i] = 0xFF
				}
				binary.BigEndian.PutUint32(e[:4], c)
				e[L-1] = byte(c)
				e[L-2] = byte(c >> 8)
			}
			h := sha256.Sum256(e)
			if !seen[h[0]] {
				seen[h[0]] = true
				left--
			}
			last := (int(e[L-2])<<8|int(e[L-1]))<<cs&2047 | int(h[0])>>(8-cs)
			if !seenLast[last] {
				seenLast[last] = true
				leftLast--
			}
			emit(e)
		}
	}
	return true
}

// Per enumerates every entropy of size L whose bit string is periodic with
// period p bits, for every p in [1, maxP] (2^p members per period): among them
// all sentences that repeat one word (p = 11) or alternate between two (p = 22
// is covered through its divisor structure only when maxP >= 22).
func Per(L, maxP int, emit Emit) {
	N := 8 * L
	for p := 1; p <= maxP; p++ {
		for v := 0; v < 1<<uint(p); v++ {
			e := make([]byte, L)
			for i := 0; i < N; i++ {
				setBit(e, i, uint(v>>uint(p-1-i%p)))
			}
			emit(e)
		}
	}
}

// Byte enumerates, for every byte position, every value of that byte on the
// backgrounds 0x00 and 0xFF (byte-wise arithmetic slips such as sign extension
// or a carry out of one byte show here; 11-bit windows do not give every value
// to the bytes that straddle two windows).
func Byte(L int, emit Emit) {
	for _, bg := range []byte{0x00, 0xFF} {
		for p := 0; p < L; p++ {
			for v := 0; v < 256; v++ {
				e := fill(L, bg)
				e[p] = byte(v)
				emit(e)
			}
		}
	}
}

// BytePair enumerates every value of every pair of adjacent bytes on a zero background.
func BytePair(L int, emit Emit) {
	for p := 0; p+1 < L; p++ {
		for v := 0; v < 65536; v++ {
			e := make([]byte, L)
			e[p], e[p+1] = byte(v>>8), byte(v)
			emit(e)
		}
	}
}

// Rep returns a small set of representative entropies of size L: 0, 1 and 2
// leading zero bytes, all zeros, all ones, alternating, counting bytes, and
// a trailing-zero one. Used as bases for sentence-level mutation scopes.
func Rep(L int) [][]byte {
	var out [][]byte
	out = append(out, fill(L, 0x00), fill(L, 0xFF), fill(L, 0x55))
	z1 := fill(L, 0xA7)
	z1[0] = 0
	out = append(out, z1)
	z2 := fill(L, 0x3C)
	z2[0], z2[1] = 0, 0
	out = append(out, z2)
	cnt := make([]byte, L)
	for i := range cnt {
		cnt[i] = byte(17*i + 1)
	}
	out = append(out, cnt)
	tz := fill(L, 0x9E)
	tz[L-1], tz[L-2] = 0, 0
	out = append(out, tz)
	lo := make([]byte, L)
	lo[0] = 0x00
	lo[1] = 0x1F // first word index < 8 with nonzero second byte
	lo[L-1] = 0x01
	out = append(out, lo)
	return out
}
