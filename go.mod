module verif

go 1.23

require (
	github.com/islishude/bip39 v0.0.0
	golang.org/x/text v0.14.0
	verifshim v0.0.0-00010101000000-000000000000
)

require golang.org/x/crypto v0.17.0

replace github.com/islishude/bip39 => /repo

replace verifshim => ./shim
