#!/bin/sh
# Builds the verification framework from files on disk only (offline).
set -e
cd "$(dirname "$0")"
export GOFLAGS=-mod=mod GOPROXY=off GOSUMDB=off GOTOOLCHAIN=local CGO_ENABLED=0
mkdir -p bin build evidence replays
go build -o bin/vcheck ./cmd/vcheck
# warm the build cache for the worker (every check rebuilds it from /repo's tree)
./bin/vcheck warm
# independent Unicode oracle tables (CPython unicodedata); derived from golden/ only
python3 py/norm.py variants golden build/uforms >/dev/null
python3 py/norm.py decomp build/uforms >/dev/null
echo "setup ok"
