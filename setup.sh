#!/bin/sh
# Builds the verification framework from files on disk only (offline).
set -e
cd "$(dirname "$0")"
export GOFLAGS=-mod=mod GOPROXY=off GOSUMDB=off GOTOOLCHAIN=local CGO_ENABLED=0
mkdir -p bin build evidence replays
go build -o bin/vcheck ./cmd/vcheck
# warm the build cache for the worker (every check rebuilds it from /repo's tree)
go build -tags verif -o build/worker.warm ./cmd/worker && rm -f build/worker.warm
echo "setup ok"
