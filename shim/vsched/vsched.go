// Package vsched is a cooperative scheduler for systematic exploration of
// thread interleavings of instrumented code, with a vector-clock
// happens-before race detector over the recorded variable accesses.
//
// Exactly one harness thread runs at any time; control changes hands only at
// "points": operations of the sync/atomic shims and instrumented accesses of
// package-level variables (Acc). At each point the enabled threads are put in
// canonical order (the running thread first if still enabled, then ascending
// ids) and the choice is taken from the replay prefix, or 0 beyond it.
//
// When no exploration is active every entry point is a cheap no-op / plain
// delegation, so an instrumented build behaves like the original.
package vsched

import (
	"fmt"
	"reflect"
	"sort"
)

// Access is one syntactic access of a package-level variable at a site.
type Access struct {
	Var  string // variable name; "name[]" for the elements of a map variable
	Kind byte   // 'R' read, 'W' write
}

// Site is an instrumented statement.
type Site struct {
	File string
	Line int
	Acc  []Access
}

var sites = map[int]*Site{}

// RegisterSite is called from generated init code.
func RegisterSite(id int, file string, line int, acc []Access) {
	sites[id] = &Site{file, line, acc}
}

// NumSites reports how many sites the instrumenter registered.
func NumSites() int { return len(sites) }

type vclock []uint32

func (v vclock) join(o vclock) {
	for i := range o {
		if o[i] > v[i] {
			v[i] = o[i]
		}
	}
}

func (v vclock) copy() vclock { return append(vclock(nil), v...) }

type thread struct {
	id       int
	wake     chan struct{}
	enabled  bool
	finished bool
	blockOn  string
	vc       vclock
	visits   map[int]int
}

// Point is one recorded scheduling decision.
type Point struct {
	Enabled        []int  `json:"enabled"`         // canonical order
	RunningEnabled bool   `json:"running_enabled"` // the thread that ran before is first in Enabled
	Choice         int    `json:"choice"`          // index into Enabled
	What           string `json:"what"`
}

// Race is an unordered conflicting pair of accesses.
type Race struct {
	Var    string `json:"var"`
	A      string `json:"a"`
	B      string `json:"b"`
	Detail string `json:"detail"`
}

type epoch struct {
	tid  int
	clk  uint32
	site int
}

type varState struct {
	w     epoch
	hasW  bool
	reads map[int]epoch
}

// Result of one controlled execution.
type Result struct {
	Points       []Point  `json:"points"`
	Deadlock     string   `json:"deadlock,omitempty"`
	Races        []Race   `json:"races"`
	Diverged     string   `json:"diverged,omitempty"`
	AccVisits    int      `json:"acc_visits"`
	SyncOps      int      `json:"sync_ops"`
	BlockedTimes int      `json:"blocked_times"` // how often a thread had to wait for a sync object held by another
	Unsupported  []string `json:"unsupported,omitempty"`
}

type sched struct {
	active     bool
	threads    []*thread
	cur        int
	prefix     []int
	res        Result
	k          int // preemptible visits per (thread, site)
	vars       map[string]*varState
	raceSeen   map[string]bool
	done       chan struct{}
	hb         bool
	chanClocks map[uintptr]*[]uint32
	chanIndex  map[uintptr]int
}

var s sched

// Active reports whether a controlled execution is in progress.
func Active() bool { return s.active }

// Current returns the id of the running harness thread (-1 if inactive).
func Current() int {
	if !s.active {
		return -1
	}
	return s.cur
}

// Options of a controlled execution.
type Options struct {
	Prefix     []int // replayed choices
	K          int   // preemptible dynamic visits per (thread, site)
	HBDetector bool
}

// Run executes the thread bodies under the scheduler to completion (or
// deadlock) and returns the recorded trace.
func Run(bodies []func(), opt Options) *Result {
	n := len(bodies)
	s = sched{active: true, prefix: opt.Prefix, k: opt.K, vars: map[string]*varState{}, raceSeen: map[string]bool{}, done: make(chan struct{}), hb: opt.HBDetector}
	s.res.Races = []Race{}
	s.res.Points = []Point{}
	for i := 0; i < n; i++ {
		t := &thread{id: i, wake: make(chan struct{}, 1), enabled: true, vc: make(vclock, n), visits: map[int]int{}}
		t.vc[i] = 1
		s.threads = append(s.threads, t)
	}
	for i := 0; i < n; i++ {
		t, body := s.threads[i], bodies[i]
		go func() {
			<-t.wake
			func() {
				defer func() {
					if r := recover(); r != nil {
						if _, ok := r.(abortT); ok {
							return
						}
						// bodies are expected to recover their own panics; anything
						// arriving here is reported by the harness through the body
					}
				}()
				body()
			}()
			t.finished = true
			t.enabled = false
			s.threadExit(t)
		}()
	}
	// initial decision: who starts
	s.cur = -1
	first := s.decide("start")
	if first >= 0 {
		s.cur = first
		s.threads[first].wake <- struct{}{}
		<-s.done
	}
	s.active = false
	r := s.res
	return &r
}

type abortT struct{}

// decide records a point and returns the chosen thread id (-1 if none enabled).
func (x *sched) decide(what string) int {
	var en []int
	runningEnabled := false
	if x.cur >= 0 && x.threads[x.cur].enabled {
		en = append(en, x.cur)
		runningEnabled = true
	}
	for _, t := range x.threads {
		if t.enabled && t.id != x.cur {
			en = append(en, t.id)
		}
	}
	if len(en) == 0 {
		return -1
	}
	choice := 0
	idx := len(x.res.Points)
	if idx < len(x.prefix) {
		choice = x.prefix[idx]
		if choice < 0 || choice >= len(en) {
			x.res.Diverged = fmt.Sprintf("point %d: replayed choice %d but only %d threads enabled", idx, choice, len(en))
			choice = 0
		}
	}
	x.res.Points = append(x.res.Points, Point{Enabled: en, RunningEnabled: runningEnabled, Choice: choice, What: what})
	return en[choice]
}

// yield is called by the running thread at a point; it returns when the
// calling thread is scheduled again.
func (x *sched) yield(what string) {
	me := x.threads[x.cur]
	next := x.decide(what)
	if next == me.id {
		return
	}
	if next < 0 {
		// nobody can run: deadlock (me is blocked, everybody else blocked or finished)
		x.deadlock()
		return
	}
	x.cur = next
	x.threads[next].wake <- struct{}{}
	<-me.wake
}

func (x *sched) deadlock() {
	var parts []string
	for _, t := range x.threads {
		if !t.finished {
			parts = append(parts, fmt.Sprintf("thread %d blocked on %s", t.id, t.blockOn))
		}
	}
	sort.Strings(parts)
	x.res.Deadlock = fmt.Sprint(parts)
	// release the controller; blocked threads stay parked (the process exits afterwards)
	close(x.done)
	select {} // park the caller forever
}

func (x *sched) threadExit(t *thread) {
	next := x.decide(fmt.Sprintf("exit t%d", t.id))
	if next < 0 {
		all := true
		for _, o := range x.threads {
			if !o.finished {
				all = false
			}
		}
		if all {
			close(x.done)
			return
		}
		x.deadlock()
		return
	}
	x.cur = next
	x.threads[next].wake <- struct{}{}
}

// SyncPoint is a scheduling point before a synchronisation operation.
func SyncPoint(what string) {
	if !s.active {
		return
	}
	s.res.SyncOps++
	s.yield(what)
}

// Block disables the running thread until Unblock(id) is called for it, and
// switches to another thread.
func Block(on string) {
	me := s.threads[s.cur]
	me.enabled = false
	me.blockOn = on
	s.res.BlockedTimes++
	s.yield("blocked on " + on)
	me.blockOn = ""
}

// Unblock re-enables a thread disabled by Block.
func Unblock(id int) { s.threads[id].enabled = true }

// Release merges the running thread's clock into a sync object's clock
// (release edge) and advances the thread's own component.
func Release(obj *[]uint32) {
	if !s.active {
		return
	}
	t := s.threads[s.cur]
	if *obj == nil {
		*obj = make([]uint32, len(s.threads))
	}
	vclock(*obj).join(t.vc)
	t.vc[t.id]++
}

// Acquire merges a sync object's clock into the running thread's clock.
func Acquire(obj *[]uint32) {
	if !s.active || *obj == nil {
		return
	}
	s.threads[s.cur].vc.join(vclock(*obj))
}

// ChanSync is inserted by the instrumenter around non-blocking channel operations (comm clauses of
// a select that has a default clause): a scheduling point, and - conservatively - an acquire and a
// release on a clock kept per channel, so that data handed over through the channel (free lists,
// try-locks) is ordered for the happens-before detector. Over-approximating these edges can only
// hide a report, never raise one; the free-running race-detector pass has the precise semantics.
func ChanSync(ch interface{}) {
	if !s.active {
		return
	}
	var key uintptr
	if v := reflect.ValueOf(ch); v.Kind() == reflect.Chan {
		key = v.Pointer()
	}
	if s.chanClocks == nil {
		s.chanClocks = map[uintptr]*[]uint32{}
		s.chanIndex = map[uintptr]int{}
	}
	c := s.chanClocks[key]
	if c == nil {
		c = new([]uint32)
		s.chanClocks[key] = c
		s.chanIndex[key] = len(s.chanIndex) // label by order of first use: stable across processes
	}
	s.yield(fmt.Sprintf("chan#%d", s.chanIndex[key]))
	Acquire(c)
	Release(c)
}

// Acc is inserted by the instrumenter before every statement that mentions a
// package-level variable.
func Acc(site int) {
	if !s.active {
		return
	}
	t := s.threads[s.cur]
	s.res.AccVisits++
	t.visits[site]++
	if t.visits[site] <= s.k {
		st := sites[site]
		what := fmt.Sprintf("acc#%d", site)
		if st != nil {
			what = fmt.Sprintf("%s:%d", st.File, st.Line)
		}
		s.yield(what)
	}
	if s.hb {
		s.record(site)
	}
}

func (x *sched) record(site int) {
	st := sites[site]
	if st == nil {
		return
	}
	t := x.threads[x.cur]
	for _, a := range st.Acc {
		vs := x.vars[a.Var]
		if vs == nil {
			vs = &varState{reads: map[int]epoch{}}
			x.vars[a.Var] = vs
		}
		me := epoch{t.id, t.vc[t.id], site}
		if vs.hasW && vs.w.tid != t.id && vs.w.clk > t.vc[vs.w.tid] {
			x.race(a.Var, vs.w, 'W', me, a.Kind)
		}
		if a.Kind == 'W' {
			for _, r := range vs.reads {
				if r.tid != t.id && r.clk > t.vc[r.tid] {
					x.race(a.Var, r, 'R', me, 'W')
				}
			}
			vs.w, vs.hasW = me, true
			vs.reads = map[int]epoch{}
		} else {
			vs.reads[t.id] = me
		}
	}
}

func (x *sched) race(v string, a epoch, ak byte, b epoch, bk byte) {
	desc := func(e epoch, k byte) string {
		st := sites[e.site]
		kind := "read"
		if k == 'W' {
			kind = "write"
		}
		return fmt.Sprintf("%s at %s:%d by thread %d", kind, st.File, st.Line, e.tid)
	}
	key := fmt.Sprintf("%s|%d|%d", v, a.site, b.site)
	if x.raceSeen[key] {
		return
	}
	x.raceSeen[key] = true
	x.res.Races = append(x.res.Races, Race{Var: v, A: desc(a, ak), B: desc(b, bk),
		Detail: fmt.Sprintf("accesses of %s are not ordered by happens-before (Once/Mutex/atomic/WaitGroup edges)", v)})
}
