// Package verifshim is the root of the cooperative scheduler and sync shims.
package verifshim
