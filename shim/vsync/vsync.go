// Package vsync mirrors the part of package sync that library code uses.
// Under an active exploration (vsched.Active) every operation is a scheduling
// point, blocks cooperatively and contributes a happens-before edge; otherwise
// it delegates to the real primitive.
package vsync

import (
	"fmt"
	"sync"

	"verifshim/vsched"
)

// Locker mirrors sync.Locker.
type Locker = sync.Locker

// Once mirrors sync.Once.
type Once struct {
	real    sync.Once
	done    bool
	running bool
	owner   int
	waiters []int
	clock   []uint32
}

func (o *Once) Do(f func()) {
	if !vsched.Active() {
		o.real.Do(f)
		return
	}
	vsched.SyncPoint(fmt.Sprintf("Once.Do %p", o))
	for o.running {
		if o.owner == vsched.Current() {
			// re-entrant Do deadlocks with the real primitive as well
			vsched.Block(fmt.Sprintf("Once %p (re-entrant)", o))
			continue
		}
		o.waiters = append(o.waiters, vsched.Current())
		vsched.Block(fmt.Sprintf("Once %p", o))
	}
	if o.done {
		vsched.Acquire(&o.clock)
		return
	}
	o.running = true
	o.owner = vsched.Current()
	defer func() {
		// like sync.Once: done is set even if f panics
		o.done = true
		o.running = false
		vsched.Release(&o.clock)
		for _, w := range o.waiters {
			vsched.Unblock(w)
		}
		o.waiters = nil
		// keep the real Once consistent for code running after the exploration
		o.real.Do(func() {})
	}()
	f()
}

// Mutex mirrors sync.Mutex.
type Mutex struct {
	real    sync.Mutex
	locked  bool
	waiters []int
	clock   []uint32
}

func (m *Mutex) Lock() {
	if !vsched.Active() {
		m.real.Lock()
		return
	}
	vsched.SyncPoint(fmt.Sprintf("Mutex.Lock %p", m))
	for m.locked {
		m.waiters = append(m.waiters, vsched.Current())
		vsched.Block(fmt.Sprintf("Mutex %p", m))
	}
	m.locked = true
	vsched.Acquire(&m.clock)
}

func (m *Mutex) TryLock() bool {
	if !vsched.Active() {
		return m.real.TryLock()
	}
	vsched.SyncPoint(fmt.Sprintf("Mutex.TryLock %p", m))
	if m.locked {
		return false
	}
	m.locked = true
	vsched.Acquire(&m.clock)
	return true
}

func (m *Mutex) Unlock() {
	if !vsched.Active() {
		m.real.Unlock()
		return
	}
	vsched.SyncPoint(fmt.Sprintf("Mutex.Unlock %p", m))
	if !m.locked {
		panic("sync: unlock of unlocked mutex")
	}
	vsched.Release(&m.clock)
	m.locked = false
	for _, w := range m.waiters {
		vsched.Unblock(w)
	}
	m.waiters = nil
	// a second point right after the release: what the caller does next is no longer protected
	vsched.SyncPoint(fmt.Sprintf("after Mutex.Unlock %p", m))
}

// RWMutex mirrors sync.RWMutex (writer preference is not modelled). Happens-before
// edges follow the Go memory model: Unlock -> later Lock/RLock; RUnlock -> later Lock
// only (two read sections are NOT ordered with respect to each other).
type RWMutex struct {
	real    sync.RWMutex
	writer  bool
	readers int
	waiters []int
	wclock  []uint32 // released by Unlock
	rclock  []uint32 // released by RUnlock
}

func (m *RWMutex) Lock() {
	if !vsched.Active() {
		m.real.Lock()
		return
	}
	vsched.SyncPoint(fmt.Sprintf("RWMutex.Lock %p", m))
	for m.writer || m.readers > 0 {
		m.waiters = append(m.waiters, vsched.Current())
		vsched.Block(fmt.Sprintf("RWMutex %p", m))
	}
	m.writer = true
	vsched.Acquire(&m.wclock)
	vsched.Acquire(&m.rclock)
}

func (m *RWMutex) Unlock() {
	if !vsched.Active() {
		m.real.Unlock()
		return
	}
	vsched.SyncPoint(fmt.Sprintf("RWMutex.Unlock %p", m))
	vsched.Release(&m.wclock)
	m.writer = false
	m.wakeAll()
	vsched.SyncPoint(fmt.Sprintf("after RWMutex.Unlock %p", m))
}

func (m *RWMutex) RLock() {
	if !vsched.Active() {
		m.real.RLock()
		return
	}
	vsched.SyncPoint(fmt.Sprintf("RWMutex.RLock %p", m))
	for m.writer {
		m.waiters = append(m.waiters, vsched.Current())
		vsched.Block(fmt.Sprintf("RWMutex %p (read)", m))
	}
	m.readers++
	vsched.Acquire(&m.wclock)
}

func (m *RWMutex) RUnlock() {
	if !vsched.Active() {
		m.real.RUnlock()
		return
	}
	vsched.SyncPoint(fmt.Sprintf("RWMutex.RUnlock %p", m))
	vsched.Release(&m.rclock)
	m.readers--
	m.wakeAll()
	vsched.SyncPoint(fmt.Sprintf("after RWMutex.RUnlock %p", m))
}

func (m *RWMutex) RLocker() Locker { return (*rlocker)(m) }

type rlocker RWMutex

func (r *rlocker) Lock()   { (*RWMutex)(r).RLock() }
func (r *rlocker) Unlock() { (*RWMutex)(r).RUnlock() }

func (m *RWMutex) wakeAll() {
	for _, w := range m.waiters {
		vsched.Unblock(w)
	}
	m.waiters = nil
}

// WaitGroup mirrors sync.WaitGroup.
type WaitGroup struct {
	real    sync.WaitGroup
	n       int
	waiters []int
	clock   []uint32
}

func (w *WaitGroup) Add(d int) {
	if !vsched.Active() {
		w.real.Add(d)
		return
	}
	vsched.SyncPoint(fmt.Sprintf("WaitGroup.Add %p", w))
	w.n += d
	if w.n < 0 {
		panic("sync: negative WaitGroup counter")
	}
	vsched.Release(&w.clock)
	if w.n == 0 {
		for _, t := range w.waiters {
			vsched.Unblock(t)
		}
		w.waiters = nil
	}
}

func (w *WaitGroup) Done() { w.Add(-1) }

func (w *WaitGroup) Wait() {
	if !vsched.Active() {
		w.real.Wait()
		return
	}
	vsched.SyncPoint(fmt.Sprintf("WaitGroup.Wait %p", w))
	for w.n > 0 {
		w.waiters = append(w.waiters, vsched.Current())
		vsched.Block(fmt.Sprintf("WaitGroup %p", w))
	}
	vsched.Acquire(&w.clock)
}

// Pool mirrors sync.Pool with a deterministic LIFO free list that never drops
// items (GC timing is not an input the harness owns, and a list that is part
// of the object lets the state fingerprint see what the pool holds). Outside an
// exploration it is guarded by a real mutex.
type Pool struct {
	New   func() interface{}
	mu    sync.Mutex
	items []interface{}
	clock []uint32
}

func (p *Pool) Get() interface{} {
	if !vsched.Active() {
		p.mu.Lock()
		if n := len(p.items); n > 0 {
			x := p.items[n-1]
			p.items = p.items[:n-1]
			p.mu.Unlock()
			return x
		}
		p.mu.Unlock()
		if p.New != nil {
			return p.New()
		}
		return nil
	}
	vsched.SyncPoint(fmt.Sprintf("Pool.Get %p", p))
	if n := len(p.items); n > 0 {
		x := p.items[n-1]
		p.items = p.items[:n-1]
		vsched.Acquire(&p.clock)
		return x
	}
	if p.New != nil {
		return p.New()
	}
	return nil
}

func (p *Pool) Put(x interface{}) {
	if x == nil {
		return
	}
	if !vsched.Active() {
		p.mu.Lock()
		p.items = append(p.items, x)
		p.mu.Unlock()
		return
	}
	vsched.SyncPoint(fmt.Sprintf("Pool.Put %p", p))
	vsched.Release(&p.clock)
	p.items = append(p.items, x)
}

// Map mirrors sync.Map.
type Map struct {
	real  sync.Map
	clock []uint32
}

func (m *Map) op(what string) {
	if vsched.Active() {
		vsched.SyncPoint(fmt.Sprintf("Map.%s %p", what, m))
		vsched.Acquire(&m.clock)
		vsched.Release(&m.clock)
	}
}

func (m *Map) Load(k interface{}) (interface{}, bool) { m.op("Load"); return m.real.Load(k) }
func (m *Map) Store(k, v interface{})                 { m.op("Store"); m.real.Store(k, v) }
func (m *Map) Delete(k interface{})                   { m.op("Delete"); m.real.Delete(k) }
func (m *Map) LoadOrStore(k, v interface{}) (interface{}, bool) {
	m.op("LoadOrStore")
	return m.real.LoadOrStore(k, v)
}
func (m *Map) LoadAndDelete(k interface{}) (interface{}, bool) {
	m.op("LoadAndDelete")
	return m.real.LoadAndDelete(k)
}
func (m *Map) Range(f func(k, v interface{}) bool) { m.op("Range"); m.real.Range(f) }

// HiddenOnce is the state of one OnceFunc / OnceValue / OnceValues object. With the real
// primitives that state lives in a closure, out of reach of the package-state fingerprint and of
// the in-process state reset; the shims therefore register it here.
type HiddenOnce struct {
	Once   *Once
	Values []interface{} // pointers to the memoised results
	reset  func()
}

var (
	hiddenMu sync.Mutex
	hidden   []*HiddenOnce
)

func registerHidden(h *HiddenOnce) {
	hiddenMu.Lock()
	hidden = append(hidden, h)
	hiddenMu.Unlock()
}

// Hidden returns the registered objects in creation order.
func Hidden() []*HiddenOnce {
	hiddenMu.Lock()
	defer hiddenMu.Unlock()
	return append([]*HiddenOnce(nil), hidden...)
}

// ResetHidden forgets the objects registered after the first n and returns the first n to
// their initial (not yet run) state.
func ResetHidden(n int) {
	hiddenMu.Lock()
	defer hiddenMu.Unlock()
	if n < len(hidden) {
		hidden = hidden[:n]
	}
	for _, h := range hidden {
		h.reset()
	}
}

// OnceFunc mirrors sync.OnceFunc.
func OnceFunc(f func()) func() {
	o := new(Once)
	registerHidden(&HiddenOnce{Once: o, reset: func() { *o = Once{} }})
	return func() { o.Do(f) }
}

// Cond mirrors sync.Cond. Condition variables are not modelled by the cooperative
// scheduler (the instrumenter reports them and the schedule exploration is then
// skipped), so this type only has to behave like the real one.
type Cond struct {
	L    Locker
	init sync.Once
	real *sync.Cond
}

func NewCond(l Locker) *Cond { return &Cond{L: l} }

func (c *Cond) lazy() *sync.Cond {
	c.init.Do(func() { c.real = sync.NewCond(c.L) })
	return c.real
}

func (c *Cond) Wait()      { c.lazy().Wait() }
func (c *Cond) Signal()    { c.lazy().Signal() }
func (c *Cond) Broadcast() { c.lazy().Broadcast() }

func (m *RWMutex) TryLock() bool {
	if !vsched.Active() {
		return m.real.TryLock()
	}
	vsched.SyncPoint(fmt.Sprintf("RWMutex.TryLock %p", m))
	if m.writer || m.readers > 0 {
		return false
	}
	m.writer = true
	vsched.Acquire(&m.wclock)
	vsched.Acquire(&m.rclock)
	return true
}

func (m *RWMutex) TryRLock() bool {
	if !vsched.Active() {
		return m.real.TryRLock()
	}
	vsched.SyncPoint(fmt.Sprintf("RWMutex.TryRLock %p", m))
	if m.writer {
		return false
	}
	m.readers++
	vsched.Acquire(&m.wclock)
	return true
}

func (m *Map) Swap(k, v interface{}) (interface{}, bool) { m.op("Swap"); return m.real.Swap(k, v) }
func (m *Map) CompareAndSwap(k, o, n interface{}) bool {
	m.op("CompareAndSwap")
	return m.real.CompareAndSwap(k, o, n)
}
func (m *Map) CompareAndDelete(k, o interface{}) bool {
	m.op("CompareAndDelete")
	return m.real.CompareAndDelete(k, o)
}
func (m *Map) Clear() { m.op("Clear"); m.real.Clear() }

// OnceValue mirrors sync.OnceValue.
func OnceValue[T any](f func() T) func() T {
	o := new(Once)
	v := new(T)
	registerHidden(&HiddenOnce{Once: o, Values: []interface{}{v}, reset: func() {
		var z T
		*o, *v = Once{}, z
	}})
	return func() T {
		o.Do(func() { *v = f() })
		return *v
	}
}

// OnceValues mirrors sync.OnceValues.
func OnceValues[T1, T2 any](f func() (T1, T2)) func() (T1, T2) {
	o := new(Once)
	a := new(T1)
	b := new(T2)
	registerHidden(&HiddenOnce{Once: o, Values: []interface{}{a, b}, reset: func() {
		var z1 T1
		var z2 T2
		*o, *a, *b = Once{}, z1, z2
	}})
	return func() (T1, T2) {
		o.Do(func() { *a, *b = f() })
		return *a, *b
	}
}
