// Package vatomic mirrors the part of sync/atomic that library code uses; under
// an active exploration each operation is a scheduling point and a (two-way)
// happens-before edge on a clock shared by all atomics, which can only hide
// races from the detector, never invent one.
package vatomic

import (
	"sync/atomic"
	"unsafe"

	"verifshim/vsched"
)

var clock []uint32

func op(what string) {
	if vsched.Active() {
		vsched.SyncPoint("atomic." + what)
		vsched.Acquire(&clock)
		vsched.Release(&clock)
	}
}

func AddInt32(p *int32, d int32) int32         { op("AddInt32"); return atomic.AddInt32(p, d) }
func AddInt64(p *int64, d int64) int64         { op("AddInt64"); return atomic.AddInt64(p, d) }
func AddUint32(p *uint32, d uint32) uint32     { op("AddUint32"); return atomic.AddUint32(p, d) }
func AddUint64(p *uint64, d uint64) uint64     { op("AddUint64"); return atomic.AddUint64(p, d) }
func AddUintptr(p *uintptr, d uintptr) uintptr { op("AddUintptr"); return atomic.AddUintptr(p, d) }
func LoadInt32(p *int32) int32                 { op("LoadInt32"); return atomic.LoadInt32(p) }
func LoadInt64(p *int64) int64                 { op("LoadInt64"); return atomic.LoadInt64(p) }
func LoadUint32(p *uint32) uint32              { op("LoadUint32"); return atomic.LoadUint32(p) }
func LoadUint64(p *uint64) uint64              { op("LoadUint64"); return atomic.LoadUint64(p) }
func LoadUintptr(p *uintptr) uintptr           { op("LoadUintptr"); return atomic.LoadUintptr(p) }
func LoadPointer(p *unsafe.Pointer) unsafe.Pointer {
	op("LoadPointer")
	return atomic.LoadPointer(p)
}
func StoreInt32(p *int32, v int32)       { op("StoreInt32"); atomic.StoreInt32(p, v) }
func StoreInt64(p *int64, v int64)       { op("StoreInt64"); atomic.StoreInt64(p, v) }
func StoreUint32(p *uint32, v uint32)    { op("StoreUint32"); atomic.StoreUint32(p, v) }
func StoreUint64(p *uint64, v uint64)    { op("StoreUint64"); atomic.StoreUint64(p, v) }
func StoreUintptr(p *uintptr, v uintptr) { op("StoreUintptr"); atomic.StoreUintptr(p, v) }
func StorePointer(p *unsafe.Pointer, v unsafe.Pointer) {
	op("StorePointer")
	atomic.StorePointer(p, v)
}
func SwapInt32(p *int32, v int32) int32     { op("SwapInt32"); return atomic.SwapInt32(p, v) }
func SwapInt64(p *int64, v int64) int64     { op("SwapInt64"); return atomic.SwapInt64(p, v) }
func SwapUint32(p *uint32, v uint32) uint32 { op("SwapUint32"); return atomic.SwapUint32(p, v) }
func SwapUint64(p *uint64, v uint64) uint64 { op("SwapUint64"); return atomic.SwapUint64(p, v) }
func SwapPointer(p *unsafe.Pointer, v unsafe.Pointer) unsafe.Pointer {
	op("SwapPointer")
	return atomic.SwapPointer(p, v)
}
func CompareAndSwapInt32(p *int32, o, n int32) bool {
	op("CompareAndSwapInt32")
	return atomic.CompareAndSwapInt32(p, o, n)
}
func CompareAndSwapInt64(p *int64, o, n int64) bool {
	op("CompareAndSwapInt64")
	return atomic.CompareAndSwapInt64(p, o, n)
}
func CompareAndSwapUint32(p *uint32, o, n uint32) bool {
	op("CompareAndSwapUint32")
	return atomic.CompareAndSwapUint32(p, o, n)
}
func CompareAndSwapUint64(p *uint64, o, n uint64) bool {
	op("CompareAndSwapUint64")
	return atomic.CompareAndSwapUint64(p, o, n)
}
func CompareAndSwapPointer(p *unsafe.Pointer, o, n unsafe.Pointer) bool {
	op("CompareAndSwapPointer")
	return atomic.CompareAndSwapPointer(p, o, n)
}

// Value mirrors atomic.Value.
type Value struct{ v atomic.Value }

func (x *Value) Load() interface{}   { op("Value.Load"); return x.v.Load() }
func (x *Value) Store(v interface{}) { op("Value.Store"); x.v.Store(v) }
func (x *Value) Swap(v interface{}) interface{} {
	op("Value.Swap")
	return x.v.Swap(v)
}
func (x *Value) CompareAndSwap(o, n interface{}) bool {
	op("Value.CompareAndSwap")
	return x.v.CompareAndSwap(o, n)
}

// Int32 mirrors atomic.Int32.
type Int32 struct{ v atomic.Int32 }

func (x *Int32) Load() int32        { op("Int32.Load"); return x.v.Load() }
func (x *Int32) Store(v int32)      { op("Int32.Store"); x.v.Store(v) }
func (x *Int32) Add(d int32) int32  { op("Int32.Add"); return x.v.Add(d) }
func (x *Int32) Swap(v int32) int32 { op("Int32.Swap"); return x.v.Swap(v) }
func (x *Int32) CompareAndSwap(o, n int32) bool {
	op("Int32.CompareAndSwap")
	return x.v.CompareAndSwap(o, n)
}

// Int64 mirrors atomic.Int64.
type Int64 struct{ v atomic.Int64 }

func (x *Int64) Load() int64        { op("Int64.Load"); return x.v.Load() }
func (x *Int64) Store(v int64)      { op("Int64.Store"); x.v.Store(v) }
func (x *Int64) Add(d int64) int64  { op("Int64.Add"); return x.v.Add(d) }
func (x *Int64) Swap(v int64) int64 { op("Int64.Swap"); return x.v.Swap(v) }
func (x *Int64) CompareAndSwap(o, n int64) bool {
	op("Int64.CompareAndSwap")
	return x.v.CompareAndSwap(o, n)
}

// Uint32 mirrors atomic.Uint32.
type Uint32 struct{ v atomic.Uint32 }

func (x *Uint32) Load() uint32         { op("Uint32.Load"); return x.v.Load() }
func (x *Uint32) Store(v uint32)       { op("Uint32.Store"); x.v.Store(v) }
func (x *Uint32) Add(d uint32) uint32  { op("Uint32.Add"); return x.v.Add(d) }
func (x *Uint32) Swap(v uint32) uint32 { op("Uint32.Swap"); return x.v.Swap(v) }
func (x *Uint32) CompareAndSwap(o, n uint32) bool {
	op("Uint32.CompareAndSwap")
	return x.v.CompareAndSwap(o, n)
}

// Uint64 mirrors atomic.Uint64.
type Uint64 struct{ v atomic.Uint64 }

func (x *Uint64) Load() uint64         { op("Uint64.Load"); return x.v.Load() }
func (x *Uint64) Store(v uint64)       { op("Uint64.Store"); x.v.Store(v) }
func (x *Uint64) Add(d uint64) uint64  { op("Uint64.Add"); return x.v.Add(d) }
func (x *Uint64) Swap(v uint64) uint64 { op("Uint64.Swap"); return x.v.Swap(v) }
func (x *Uint64) CompareAndSwap(o, n uint64) bool {
	op("Uint64.CompareAndSwap")
	return x.v.CompareAndSwap(o, n)
}

// Bool mirrors atomic.Bool.
type Bool struct{ v atomic.Bool }

func (x *Bool) Load() bool       { op("Bool.Load"); return x.v.Load() }
func (x *Bool) Store(v bool)     { op("Bool.Store"); x.v.Store(v) }
func (x *Bool) Swap(v bool) bool { op("Bool.Swap"); return x.v.Swap(v) }
func (x *Bool) CompareAndSwap(o, n bool) bool {
	op("Bool.CompareAndSwap")
	return x.v.CompareAndSwap(o, n)
}

// Uintptr mirrors atomic.Uintptr.
type Uintptr struct{ v atomic.Uintptr }

func (x *Uintptr) Load() uintptr          { op("Uintptr.Load"); return x.v.Load() }
func (x *Uintptr) Store(v uintptr)        { op("Uintptr.Store"); x.v.Store(v) }
func (x *Uintptr) Add(d uintptr) uintptr  { op("Uintptr.Add"); return x.v.Add(d) }
func (x *Uintptr) Swap(v uintptr) uintptr { op("Uintptr.Swap"); return x.v.Swap(v) }
func (x *Uintptr) CompareAndSwap(o, n uintptr) bool {
	op("Uintptr.CompareAndSwap")
	return x.v.CompareAndSwap(o, n)
}

// Pointer mirrors atomic.Pointer[T].
type Pointer[T any] struct{ v atomic.Pointer[T] }

func (x *Pointer[T]) Load() *T     { op("Pointer.Load"); return x.v.Load() }
func (x *Pointer[T]) Store(v *T)   { op("Pointer.Store"); x.v.Store(v) }
func (x *Pointer[T]) Swap(v *T) *T { op("Pointer.Swap"); return x.v.Swap(v) }
func (x *Pointer[T]) CompareAndSwap(o, n *T) bool {
	op("Pointer.CompareAndSwap")
	return x.v.CompareAndSwap(o, n)
}

func AndInt32(p *int32, m int32) int32     { op("AndInt32"); return atomic.AndInt32(p, m) }
func OrInt32(p *int32, m int32) int32      { op("OrInt32"); return atomic.OrInt32(p, m) }
func AndUint32(p *uint32, m uint32) uint32 { op("AndUint32"); return atomic.AndUint32(p, m) }
func OrUint32(p *uint32, m uint32) uint32  { op("OrUint32"); return atomic.OrUint32(p, m) }
func SwapUintptr(p *uintptr, v uintptr) uintptr {
	op("SwapUintptr")
	return atomic.SwapUintptr(p, v)
}
func CompareAndSwapUintptr(p *uintptr, o, n uintptr) bool {
	op("CompareAndSwapUintptr")
	return atomic.CompareAndSwapUintptr(p, o, n)
}
