module verifshim

go 1.23
