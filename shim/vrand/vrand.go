// Package vrand stands in for crypto/rand in the "controlled default source"
// build of the package under test: its Reader delivers a fixed, position-coded
// byte stream, so that what NewMnemonic does with the bytes of its *default*
// source can be checked byte for byte.
package vrand

import (
	"crypto/sha256"
	"encoding/binary"
	"io"
	"sync"
)

// Stream is the scripted stand-in for the operating-system generator.
type Stream struct {
	mu        sync.Mutex
	Delivered int
	Reads     int
}

// Reader plays the role of crypto/rand.Reader.
var Reader io.Reader = &Stream{}

// ByteAt is the stream content at offset i (SHA-256 in counter mode: windows
// of 16+ bytes are unique for all practical purposes).
func ByteAt(i int) byte {
	var blk [8]byte
	binary.BigEndian.PutUint64(blk[:], uint64(i/32))
	h := sha256.Sum256(blk[:])
	return h[i%32]
}

func (s *Stream) Read(p []byte) (int, error) {
	s.mu.Lock()
	defer s.mu.Unlock()
	for i := range p {
		p[i] = ByteAt(s.Delivered + i)
	}
	s.Delivered += len(p)
	s.Reads++
	return len(p), nil
}

// Read mirrors crypto/rand.Read.
func Read(b []byte) (int, error) { return io.ReadFull(Reader, b) }

// Default returns the stream behind Reader as first installed.
var defaultStream = Reader.(*Stream)

// Delivered reports how many bytes the default stream has handed out.
func Delivered() int {
	defaultStream.mu.Lock()
	defer defaultStream.mu.Unlock()
	return defaultStream.Delivered
}

// DefaultReader returns the Reader value installed at start-up.
func DefaultReader() io.Reader { return defaultStream }
