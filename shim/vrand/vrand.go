// Package vrand stands in for crypto/rand in the "controlled default source"
// build of the package under test: its Reader delivers a fixed, position-coded
// byte stream, so that what NewMnemonic does with the bytes of its *default*
// source can be checked byte for byte.
package vrand

import (
	"crypto/sha256"
	"encoding/binary"
	"errors"
	"io"
	"sync"
)

// Stream is the scripted stand-in for the operating-system generator.
type Stream struct {
	mu        sync.Mutex
	Delivered int
	Reads     int
	FailAt    int // the stream ends (with ErrDown, for good) after this many bytes; <0 = never
}

// ErrDown is what the stand-in reports once it has been told to fail.
var ErrDown = errors.New("vrand: the stand-in for the operating-system generator is down")

// Down reports whether the default stream has started failing.
func Down() bool {
	defaultStream.mu.Lock()
	defer defaultStream.mu.Unlock()
	return defaultStream.FailAt >= 0 && defaultStream.Delivered >= defaultStream.FailAt
}

// SetFailAt makes the default stream fail after n bytes in total.
func SetFailAt(n int) {
	defaultStream.mu.Lock()
	defaultStream.FailAt = n
	defaultStream.mu.Unlock()
}

// Reader plays the role of crypto/rand.Reader.
var Reader io.Reader = &Stream{FailAt: -1}

// ByteAt is the stream content at offset i (SHA-256 in counter mode: windows
// of 16+ bytes are unique for all practical purposes).
func ByteAt(i int) byte {
	blkMu.Lock()
	defer blkMu.Unlock()
	if i/32 != blkNo {
		var blk [8]byte
		binary.BigEndian.PutUint64(blk[:], uint64(i/32))
		blkVal = sha256.Sum256(blk[:])
		blkNo = i / 32
	}
	return blkVal[i%32]
}

var (
	blkMu  sync.Mutex
	blkNo  = -1
	blkVal [32]byte
)

func (s *Stream) Read(p []byte) (int, error) {
	s.mu.Lock()
	defer s.mu.Unlock()
	s.Reads++
	n := len(p)
	var err error
	if s.FailAt >= 0 && s.Delivered+n > s.FailAt {
		n = s.FailAt - s.Delivered
		if n < 0 {
			n = 0
		}
		err = ErrDown
	}
	for i := 0; i < n; i++ {
		p[i] = ByteAt(s.Delivered + i)
	}
	s.Delivered += n
	return n, err
}

// Read mirrors crypto/rand.Read.
func Read(b []byte) (int, error) { return io.ReadFull(Reader, b) }

// Default returns the stream behind Reader as first installed.
var defaultStream = Reader.(*Stream)

// Delivered reports how many bytes the default stream has handed out.
func Delivered() int {
	defaultStream.mu.Lock()
	defer defaultStream.mu.Unlock()
	return defaultStream.Delivered
}

// DefaultReader returns the Reader value installed at start-up.
func DefaultReader() io.Reader { return defaultStream }
