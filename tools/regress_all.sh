#!/bin/bash
# usage: tools/regress_all.sh [jobs]   parallel regression in scratch worktrees (VERIF_REPO), /repo untouched:
#   every seeded change must be reported (exit 1) by each check recorded in its meta.json detected_by;
#   every benign change must pass all 17 checks (exit 0). Writes /tmp/regress/{seeded,benign}.log
export GOFLAGS=-mod=mod GOPROXY=off GOSUMDB=off GOTOOLCHAIN=local
J=${1:-4}; R=/tmp/regress; rm -rf $R; mkdir -p $R
one_seeded() {
  d=/verif/seeded/$1; W=/tmp/regress/wt-$$-$1; OUT=/tmp/regress/out-$$-$1
  git -C /repo worktree add -q --detach $W HEAD || { echo "$1: WORKTREE-FAIL"; return; }
  res=""
  if git -C $W apply $d/patch.diff 2>/dev/null; then
    for c in $(python3 -c "import json;print(' '.join(json.load(open('$d/meta.json'))['detected_by']))"); do
      VERIF_REPO=$W VERIF_OUT=$OUT /verif/bin/vcheck run $c --tier quick >/dev/null 2>&1; res="$res $c:exit=$?"
    done
  else res=" PATCH-DOES-NOT-APPLY"; fi
  echo "$1:$res"
  git -C /repo worktree remove --force $W >/dev/null 2>&1; rm -rf $OUT
}
one_benign() {
  d=/verif/benign/$1; W=/tmp/regress/wt-$$-$1; OUT=/tmp/regress/out-$$-$1
  git -C /repo worktree add -q --detach $W HEAD || { echo "$1: WORKTREE-FAIL"; return; }
  res=""
  if git -C $W apply $d/patch.diff 2>/dev/null; then
    for c in C01 C02 C03 C04 C05 C06 C07 C08 C09 C10 C11 C12 C13 C14 C15 C16 C17; do
      VERIF_REPO=$W VERIF_OUT=$OUT /verif/bin/vcheck run $c --tier quick >/dev/null 2>&1; rc=$?; [ $rc != 0 ] && res="$res $c:exit=$rc"
    done
  else res=" PATCH-DOES-NOT-APPLY"; fi
  echo "$1:${res:- all 17 exit 0}"
  git -C /repo worktree remove --force $W >/dev/null 2>&1; rm -rf $OUT
}
export -f one_seeded one_benign
ls /verif/seeded | grep -v CONFIRMED | xargs -P $J -I{} bash -c 'one_seeded {}' > $R/seeded.log 2>&1
ls /verif/benign | xargs -P $J -I{} bash -c 'one_benign {}' > $R/benign.log 2>&1
echo "seeded: $(grep -c . $R/seeded.log) changes, not reported by a recorded check: $(grep -c 'exit=[02]' $R/seeded.log)"
echo "benign: $(grep -c . $R/benign.log) changes, with an alarm or failure: $(grep -vc 'all 17 exit 0' $R/benign.log)"
