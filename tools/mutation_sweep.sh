#!/bin/bash
# Mechanical single-token mutation sweep (complements the hand-made seeded changes).
#   stage 1: tools/mutgen writes every single-site mutant of the library sources;
#            the ones that compile (with and without -tags verif) and pass the existing suite survive
#   stage 2: every survivor gets all 17 quick checks (or the ids in $CHECKS); a survivor no
#            check reports is listed as UNDETECTED for manual triage (equivalent or missed).
# usage: tools/mutation_sweep.sh <workdir under /tmp> [jobs]
# Works only in scratch worktrees of /repo; /repo and the committed evidence are untouched.
set -u
export GOFLAGS=-mod=mod GOPROXY=off GOSUMDB=off GOTOOLCHAIN=local
WD=${1:-/tmp/msweep}; J=${2:-4}
VCHECK=${VCHECK:-/verif/bin/vcheck}
CHECKS=${CHECKS:-C01 C02 C03 C04 C05 C06 C07 C08 C09 C10 C11 C12 C13 C14 C15 C16 C17}
mkdir -p $WD
if [ ! -d $WD/m ]; then
  (cd /verif && go build -o $WD/mutgen ./tools/mutgen) && $WD/mutgen /repo $WD/m || exit 2
fi
stage1() { # $1 = worker index
  local W=$WD/wt$1
  git -C /repo worktree add -q --detach $W HEAD || return
  for d in $(ls $WD/m | awk -v j=$J -v i=$1 'NR%j==i'); do
    local M=$WD/m/$d; local rel=$(head -1 $M/desc.txt)
    [ -f $M/stage1 ] && continue
    cp $M/$rel $W/$rel
    if ! (cd $W && go build ./... && go build -tags verif ./...) >/dev/null 2>&1; then echo nobuild > $M/stage1
    elif ! (cd $W && timeout 300 go test -vet=off -count=1 ./...) >/dev/null 2>&1; then echo killed-by-suite > $M/stage1
    else echo survivor > $M/stage1; fi
    git -C $W checkout -q -- .
  done
  git -C /repo worktree remove --force $W
}
stage2() {
  local W=$WD/wt$1
  git -C /repo worktree add -q --detach $W HEAD || return
  for d in $(grep -l survivor $WD/m/*/stage1 | xargs -n1 dirname | xargs -n1 basename | awk -v j=$J -v i=$1 'NR%j==i'); do
    local M=$WD/m/$d; local rel=$(head -1 $M/desc.txt)
    [ -f $M/stage2 ] && continue
    cp $M/$rel $W/$rel
    local hit=""
    for c in $CHECKS; do
      VERIF_REPO=$W VERIF_OUT=$WD/out$1 $VCHECK run $c --tier quick >$M/$c.log 2>&1; rc=$?
      if [ $rc = 1 ]; then hit="$hit $c"; rm -f $M/$c.log; [ -z "${ALLCHECKS:-}" ] && break
      elif [ $rc != 0 ]; then hit="$hit $c(exit$rc)"; else rm -f $M/$c.log; fi
    done
    echo "${hit:-UNDETECTED}" > $M/stage2
    git -C $W checkout -q -- .
  done
  git -C /repo worktree remove --force $W; rm -rf $WD/out$1
}
for i in $(seq 0 $((J-1))); do stage1 $i & done; wait
echo "stage 1: $(cat $WD/m/*/stage1 | sort | uniq -c | tr '\n' ' ')"
[ -n "${STAGE1ONLY:-}" ] && exit 0
for i in $(seq 0 $((J-1))); do stage2 $i & done; wait
echo "stage 2:"; for M in $WD/m/*; do [ -f $M/stage2 ] && echo "$(basename $M) $(sed -n 2p $M/desc.txt) => $(cat $M/stage2)"; done | tee $WD/report.txt | grep -c UNDETECTED
