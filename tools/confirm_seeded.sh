#!/bin/bash
# Official confirmation flow for kept seeded changes: for each /verif/seeded/<id>, apply the patch to /repo
# itself (git -C /repo apply), run the quick checks listed in meta.json's detected_by from /verif against
# /repo, and undo the change straight afterwards (git -C /repo checkout -- .). Evidence written during these
# runs goes to a scratch directory (VERIF_OUT) so that the committed evidence stays that of the unchanged tree.
# usage: tools/confirm_seeded.sh [id...]   (default: all)
cd /verif
OUT=$(mktemp -d /tmp/confirm-XXXX); trap 'rm -rf $OUT; git -C /repo checkout -q -- . ; git -C /repo clean -fdq' EXIT
ids="$@"; [ -z "$ids" ] && ids=$(cd seeded && ls -d */ | tr -d /)
[ -n "$(git -C /repo status --porcelain)" ] && { echo "/repo is not clean"; exit 2; }
for id in $ids; do
  d=seeded/$id
  checks=$(python3 -c "import json;print(' '.join(json.load(open('$d/meta.json'))['detected_by']))")
  git -C /repo apply $PWD/$d/patch.diff || { echo "$id: PATCH DOES NOT APPLY"; continue; }
  res=""
  for c in $checks; do
    VERIF_OUT=$OUT ./bin/vcheck run $c >$OUT/log 2>&1; rc=$?
    res="$res $c:exit=$rc"
  done
  git -C /repo checkout -q -- . ; git -C /repo clean -fdq
  echo "$id:$res"
done
