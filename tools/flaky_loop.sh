#!/bin/bash
# Runs every quick check N times on the unchanged tree with different VERIF_SEED values and reports any
# run that does not exit 0 (a check that alarms on the unchanged tree is broken).
N=${1:-3}
cd /verif
OUT=$(mktemp -d /tmp/flaky-XXXX); trap 'rm -rf $OUT' EXIT
for i in $(seq $N); do
  for id in $(python3 -c "import json;print(' '.join(c['property_id'] for c in json.load(open('MANIFEST.json'))['checks']))"); do
    VERIF_SEED=$((i*7919)) VERIF_OUT=$OUT ./bin/vcheck run $id > $OUT/log 2>&1; rc=$?
    [ $rc != 0 ] && { echo "round $i $id rc=$rc"; tail -5 $OUT/log; }
  done
  echo "round $i done"
done
