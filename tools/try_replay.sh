#!/bin/bash
# usage: tools/try_replay.sh <seeded dir> <check>: runs the check on a scratch worktree with the change, replays the first violation there and on the clean tree
P=$(realpath $1); W=/tmp/rp-$$; OUT=/tmp/rpout-$$; mkdir -p $OUT
git -C /repo worktree add -q --detach $W HEAD; trap 'git -C /repo worktree remove --force $W >/dev/null 2>&1; rm -rf $OUT' EXIT
git -C $W apply $P/patch.diff
f=$(VERIF_REPO=$W VERIF_OUT=$OUT ${VCHECK:-/verif/bin/vcheck} run $2 | grep -m1 '^VIOLATION' | sed 's/.*replay=//')
echo "first replay file: $f"
echo "--- replay on the changed tree:"; VERIF_REPO=$W ${VCHECK:-/verif/bin/vcheck} replay $f | tail -6; echo "exit=$?"
echo "--- replay on the unchanged tree:"; ${VCHECK:-/verif/bin/vcheck} replay $f | tail -3; echo "exit=${PIPESTATUS[0]}"
