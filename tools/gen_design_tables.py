#!/usr/bin/env python3
"""Regenerates the two tables of DESIGN.md section 6 from seeded/*/meta.json and benign/*/meta.json
(between the HTML comment markers)."""
import json, glob, re, os
HERE = os.path.dirname(os.path.dirname(os.path.abspath(__file__)))
p = os.path.join(HERE, 'DESIGN.md')
s = open(p, encoding='utf-8').read()
rows = []
for f in sorted(glob.glob(os.path.join(HERE, 'seeded/*/meta.json'))):
    m = json.load(open(f)); name = f.split('/')[-2]
    summ = (m.get('summary') or '').replace('\n', ' ').replace('|', '/')
    if len(summ) > 150: summ = summ[:147] + '...'
    rows.append('| `%s` | %s | %s | %s |' % (name, m['property'], summ, ', '.join(m['detected_by']) or '— (missed)'))
brows = []
for f in sorted(glob.glob(os.path.join(HERE, 'benign/*/meta.json'))):
    m = json.load(open(f)); name = f.split('/')[-2]
    summ = (m.get('summary') or '').replace('\n', ' ').replace('|', '/')
    if len(summ) > 210: summ = summ[:207] + '...'
    brows.append('| `%s` | %s | none (17/17 quick checks exit 0) |' % (name, summ))
def put(tag, header, body):
    global s
    b, e = '<!-- %s-BEGIN -->' % tag, '<!-- %s-END -->' % tag
    block = b + '\n' + header + '\n' + '\n'.join(body) + '\n' + e
    if b in s:
        s = s[:s.index(b)] + block + s[s.index(e) + len(e):]
    else:
        # first use: replace the existing table that starts with this header
        i = s.index(header)
        j = i
        lines = s[i:].split('\n')
        k = 0
        while k < len(lines) and lines[k].startswith('|'):
            k += 1
        s = s[:i] + block + '\n' + '\n'.join(lines[k:])
put('SEEDED-TABLE', '| change | property | what it does | detected by (quick) |\n|---|---|---|---|', rows)
put('BENIGN-TABLE', '| change | what it does | alarms |\n|---|---|---|', brows)
s = re.sub(r'holds \d+ property-breaking changes', 'holds %d property-breaking changes' % len(rows), s)
open(p, 'w', encoding='utf-8').write(s)
print('seeded', len(rows), 'benign', len(brows))
