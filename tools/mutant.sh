#!/bin/bash
# usage: tools/mutant.sh <dir with patch.diff + demo> [tier] <check ids...>
# 1. confirms in a scratch worktree that the change compiles, passes the existing suite,
#    and that the demonstration fails with it and passes without it;
# 2. runs the given checks against that scratch worktree (VERIF_REPO), leaving /repo and the
#    committed evidence untouched. (Final confirmation of kept changes is done once more with
#    `git -C /repo apply` as tools/confirm_seeded.sh does.)
set -u
export GOFLAGS=-mod=mod GOPROXY=off GOSUMDB=off GOTOOLCHAIN=local
D=$(realpath "$1"); shift
TIER=quick
if [ "${1:-}" = quick ] || [ "${1:-}" = thorough ]; then TIER=$1; shift; fi
W=/tmp/mutcheck-$$
git -C /repo worktree add -q --detach "$W" HEAD || exit 2
OUT=/tmp/mutout-$$; mkdir -p $OUT
trap 'git -C /repo worktree remove --force "$W" >/dev/null 2>&1; rm -rf $OUT' EXIT
demo_run() { # runs the demonstration in $W; echoes PASS/FAIL
  if ls "$D"/*_test.go >/dev/null 2>&1; then
    cp "$D"/*_test.go "$W"/ ; (cd "$W" && go test ${DEMORACE:+-race} -tags "${DEMOTAGS:-}" -vet=off -count=1 -run "${DEMORUN:-Demo|Seeded|Mutant|Mut}" . >/tmp/mutdemo.$$ 2>&1); rc=$?
    for f in "$D"/*_test.go; do rm -f "$W/$(basename $f)"; done
  elif [ -d "$D/demo" ]; then
    mkdir -p "$W/_demo" && cp -r "$D"/demo/* "$W/_demo/" && (cd "$W" && go run -tags "${DEMOTAGS:-}" ./_demo >/tmp/mutdemo.$$ 2>&1); rc=$?; rm -rf "$W/_demo"
  else
    echo "no demo"; return
  fi
  [ $rc = 0 ] && echo PASS || echo FAIL
}
echo "== clean tree: demo -> $(demo_run)"
if ! git -C "$W" apply "$D/patch.diff"; then echo "PATCH DOES NOT APPLY"; exit 2; fi
(cd "$W" && go build ./... && go build -tags verif ./...) || { echo "DOES NOT BUILD"; exit 2; }
(cd "$W" && go test -vet=off -count=1 ./... >/tmp/mutsuite.$$ 2>&1) && echo "== changed tree: existing suite PASS" || { echo "== changed tree: existing suite FAIL"; tail -20 /tmp/mutsuite.$$; }
echo "== changed tree: demo -> $(demo_run)"; tail -5 /tmp/mutdemo.$$
rm -f /tmp/mutdemo.$$ /tmp/mutsuite.$$
for c in "$@"; do
  out=$(VERIF_REPO=$W VERIF_OUT=$OUT ${VCHECK:-/verif/bin/vcheck} run $c --tier $TIER 2>&1); rc=$?
  echo "== check $c ($TIER): exit=$rc  $(echo "$out" | grep -c '^VIOLATION') VIOLATION lines"
  echo "$out" | grep -A1 '^VIOLATION' | head -4
  [ $rc = 2 ] && echo "$out" | tail -5
done
