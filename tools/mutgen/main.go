// Command mutgen writes single-token mutants of the library's non-test Go files
// (classic mutation operators) as full replacement files:
//
//	mutgen <repo dir> <out dir>
//
// For every mutant k it creates <out>/<k>/<file>.go (the mutated file) and
// <out>/<k>/desc.txt ("file:line operator: before -> after"). The driver
// (tools/mutation_sweep.sh) copies the file over a scratch worktree, keeps the
// mutants that compile and pass the existing suite, and runs the checks on them.
package main

import (
	"bytes"
	"fmt"
	"go/ast"
	"go/format"
	"go/parser"
	"go/token"
	"os"
	"path/filepath"
	"strconv"
	"strings"
)

var binSwaps = map[token.Token][]token.Token{
	token.LSS: {token.LEQ, token.GTR}, token.LEQ: {token.LSS, token.GEQ}, token.GTR: {token.GEQ, token.LSS}, token.GEQ: {token.GTR, token.LEQ},
	token.EQL: {token.NEQ}, token.NEQ: {token.EQL},
	token.ADD: {token.SUB}, token.SUB: {token.ADD}, token.MUL: {token.QUO}, token.QUO: {token.MUL, token.REM}, token.REM: {token.QUO},
	token.SHL: {token.SHR}, token.SHR: {token.SHL}, token.AND: {token.OR}, token.OR: {token.AND, token.XOR},
	token.LAND: {token.LOR}, token.LOR: {token.LAND},
}

type mutant struct {
	file, desc string
	src        []byte
}

func main() {
	repo, out := os.Args[1], os.Args[2]
	files := []string{"bip39.go", "entropy.go", "mnemonic.go", "lang.go", "language_string.go", "errors.go", "update-wordlist/main.go"}
	n := 0
	for _, rel := range files {
		path := filepath.Join(repo, rel)
		orig, err := os.ReadFile(path)
		if err != nil {
			continue
		}
		for _, m := range mutate(rel, orig) {
			n++
			dir := filepath.Join(out, fmt.Sprintf("%04d", n))
			os.MkdirAll(filepath.Join(dir, filepath.Dir(rel)), 0755)
			os.WriteFile(filepath.Join(dir, rel), m.src, 0644)
			os.WriteFile(filepath.Join(dir, "desc.txt"), []byte(rel+"\n"+m.desc+"\n"), 0644)
		}
	}
	fmt.Println(n, "mutants")
}

// mutate applies each operator at each site, one at a time, by re-parsing the
// file for every mutant (simple and safe).
func mutate(rel string, orig []byte) []mutant {
	var out []mutant
	// count sites first
	fset := token.NewFileSet()
	f, err := parser.ParseFile(fset, rel, orig, parser.ParseComments)
	if err != nil {
		return nil
	}
	type site struct {
		kind string
		idx  int
		alt  int
	}
	var sites []site
	bi, li, ri, ii, ui, ci := 0, 0, 0, 0, 0, 0
	ast.Inspect(f, func(n ast.Node) bool {
		switch x := n.(type) {
		case *ast.BinaryExpr:
			for a := range binSwaps[x.Op] {
				sites = append(sites, site{"bin", bi, a})
			}
			bi++
		case *ast.BasicLit:
			if x.Kind == token.INT {
				sites = append(sites, site{"lit", li, 0}, site{"lit", li, 1})
			}
			li++
		case *ast.ReturnStmt:
			ri++
		case *ast.IfStmt:
			sites = append(sites, site{"ifneg", ii, 0})
			ii++
		case *ast.UnaryExpr:
			if x.Op == token.NOT {
				sites = append(sites, site{"unot", ui, 0})
			}
			ui++
		case *ast.CallExpr:
			if len(x.Args) >= 2 {
				sites = append(sites, site{"swapargs", ci, 0})
			}
			ci++
		case *ast.ExprStmt, *ast.AssignStmt, *ast.IncDecStmt:
			// statement deletion handled below through block lists
		}
		return true
	})
	// statement deletion sites
	si := 0
	ast.Inspect(f, func(n ast.Node) bool {
		if b, ok := n.(*ast.BlockStmt); ok {
			for range b.List {
				sites = append(sites, site{"delstmt", si, 0})
				si++
			}
		}
		return true
	})
	for _, s := range sites {
		fset := token.NewFileSet()
		f, _ := parser.ParseFile(fset, rel, orig, parser.ParseComments)
		desc := ""
		bi, li, ii, ui, ci, si := 0, 0, 0, 0, 0, 0
		done := false
		ast.Inspect(f, func(n ast.Node) bool {
			if done {
				return false
			}
			switch x := n.(type) {
			case *ast.BinaryExpr:
				if s.kind == "bin" && bi == s.idx {
					alt := binSwaps[x.Op][s.alt]
					desc = fmt.Sprintf("%s: binary operator %s -> %s", fset.Position(x.OpPos), x.Op, alt)
					x.Op = alt
					done = true
				}
				bi++
			case *ast.BasicLit:
				if s.kind == "lit" && li == s.idx && x.Kind == token.INT {
					v, err := strconv.ParseInt(x.Value, 0, 64)
					if err == nil {
						nv := v + 1
						if s.alt == 1 {
							nv = v - 1
						}
						if nv >= 0 {
							desc = fmt.Sprintf("%s: constant %s -> %d", fset.Position(x.Pos()), x.Value, nv)
							x.Value = strconv.FormatInt(nv, 10)
							done = true
						}
					}
				}
				li++
			case *ast.IfStmt:
				if s.kind == "ifneg" && ii == s.idx {
					desc = fmt.Sprintf("%s: condition negated", fset.Position(x.Pos()))
					x.Cond = &ast.UnaryExpr{Op: token.NOT, X: &ast.ParenExpr{X: x.Cond}}
					done = true
				}
				ii++
			case *ast.UnaryExpr:
				if s.kind == "unot" && ui == s.idx && x.Op == token.NOT {
					desc = fmt.Sprintf("%s: negation removed", fset.Position(x.Pos()))
					x.Op = token.ADD // +x is invalid for bools: instead wrap below
					done = true
				}
				ui++
			case *ast.CallExpr:
				if s.kind == "swapargs" && ci == s.idx && len(x.Args) >= 2 {
					desc = fmt.Sprintf("%s: first two arguments swapped", fset.Position(x.Pos()))
					x.Args[0], x.Args[1] = x.Args[1], x.Args[0]
					done = true
				}
				ci++
			case *ast.BlockStmt:
				if s.kind == "delstmt" {
					for k := range x.List {
						if si == s.idx {
							switch x.List[k].(type) {
							case *ast.ExprStmt, *ast.AssignStmt, *ast.IncDecStmt, *ast.IfStmt, *ast.ReturnStmt:
								desc = fmt.Sprintf("%s: statement deleted", fset.Position(x.List[k].Pos()))
								x.List = append(append([]ast.Stmt{}, x.List[:k]...), x.List[k+1:]...)
								done = true
							}
							si++
							break
						}
						si++
					}
				}
			}
			return !done
		})
		if !done || desc == "" || strings.Contains(desc, "negation removed") {
			continue
		}
		var b bytes.Buffer
		if format.Node(&b, fset, f) != nil {
			continue
		}
		if bytes.Equal(b.Bytes(), orig) {
			continue
		}
		out = append(out, mutant{rel, desc, b.Bytes()})
	}
	return out
}
