// Command mutgen writes single-token mutants of the library's non-test Go files
// (classic mutation operators) as full replacement files:
//
//	mutgen <repo dir> <out dir>
//
// For every mutant k it creates <out>/<k>/<file>.go (the mutated file) and
// <out>/<k>/desc.txt ("file:line operator: before -> after"). The driver
// (tools/mutation_sweep.sh) copies the file over a scratch worktree, keeps the
// mutants that compile and pass the existing suite, and runs the checks on them.
package main

import (
	"bytes"
	"fmt"
	"go/ast"
	"go/format"
	"go/parser"
	"go/token"
	"os"
	"path/filepath"
	"sort"
	"strconv"
	"strings"
)

var binSwaps = map[token.Token][]token.Token{
	token.LSS: {token.LEQ, token.GTR}, token.LEQ: {token.LSS, token.GEQ}, token.GTR: {token.GEQ, token.LSS}, token.GEQ: {token.GTR, token.LEQ},
	token.EQL: {token.NEQ}, token.NEQ: {token.EQL},
	token.ADD: {token.SUB}, token.SUB: {token.ADD}, token.MUL: {token.QUO}, token.QUO: {token.MUL, token.REM}, token.REM: {token.QUO},
	token.SHL: {token.SHR}, token.SHR: {token.SHL}, token.AND: {token.OR}, token.OR: {token.AND, token.XOR},
	token.LAND: {token.LOR}, token.LOR: {token.LAND},
}

type mutant struct {
	file, desc string
	src        []byte
}

func main() {
	repo, out := os.Args[1], os.Args[2]
	files := []string{"bip39.go", "entropy.go", "mnemonic.go", "lang.go", "language_string.go", "errors.go", "update-wordlist/main.go"}
	n := 0
	for _, rel := range files {
		path := filepath.Join(repo, rel)
		orig, err := os.ReadFile(path)
		if err != nil {
			continue
		}
		for _, m := range mutate(rel, orig) {
			n++
			dir := filepath.Join(out, fmt.Sprintf("%04d", n))
			os.MkdirAll(filepath.Join(dir, filepath.Dir(rel)), 0755)
			os.WriteFile(filepath.Join(dir, rel), m.src, 0644)
			os.WriteFile(filepath.Join(dir, "desc.txt"), []byte(rel+"\n"+m.desc+"\n"), 0644)
		}
	}
	fmt.Println(n, "mutants")
}

// mutate applies each operator at each site, one at a time, by re-parsing the
// file for every mutant (simple and safe).
func mutate(rel string, orig []byte) []mutant {
	var out []mutant
	// count sites first
	fset := token.NewFileSet()
	f, err := parser.ParseFile(fset, rel, orig, parser.ParseComments)
	if err != nil {
		return nil
	}
	type site struct {
		kind string
		idx  int
		alt  int
	}
	var sites []site
	bi, li, ri, ii, ui, ci := 0, 0, 0, 0, 0, 0
	ast.Inspect(f, func(n ast.Node) bool {
		switch x := n.(type) {
		case *ast.BinaryExpr:
			for a := range binSwaps[x.Op] {
				sites = append(sites, site{"bin", bi, a})
			}
			bi++
		case *ast.BasicLit:
			if x.Kind == token.INT {
				sites = append(sites, site{"lit", li, 0}, site{"lit", li, 1})
			}
			li++
		case *ast.ReturnStmt:
			ri++
		case *ast.IfStmt:
			sites = append(sites, site{"ifneg", ii, 0})
			ii++
		case *ast.UnaryExpr:
			if x.Op == token.NOT {
				sites = append(sites, site{"unot", ui, 0})
			}
			ui++
		case *ast.CallExpr:
			if len(x.Args) >= 2 {
				sites = append(sites, site{"swapargs", ci, 0})
			}
			if len(x.Args) == 1 {
				sites = append(sites, site{"unwrap", ci, 0})
			}
			ci++
		case *ast.ExprStmt, *ast.AssignStmt, *ast.IncDecStmt:
			// statement deletion handled below through block lists
		}
		return true
	})
	// third batch: a local identifier replaced by another local of the same function (the compiler
	// weeds out the ill-typed ones), bodies of adjacent case clauses swapped, defer dropped
	for fi, d := range f.Decls {
		fd, ok := d.(*ast.FuncDecl)
		if !ok || fd.Body == nil {
			continue
		}
		names := localNames(fd)
		k := 0
		ast.Inspect(fd.Body, func(n ast.Node) bool {
			if id, ok := n.(*ast.Ident); ok && names[id.Name] {
				a := 0
				for _, other := range sortedNames(names) {
					if other != id.Name {
						sites = append(sites, site{"identsub", fi*100000 + k, a})
					}
					a++
				}
				k++
			}
			return true
		})
	}
	cj2, dj := 0, 0
	ast.Inspect(f, func(n ast.Node) bool {
		switch x := n.(type) {
		case *ast.BlockStmt:
			for i := 0; i+1 < len(x.List); i++ {
				if _, ok := x.List[i].(*ast.CaseClause); ok {
					sites = append(sites, site{"caseswap", cj2, 0})
					cj2++
				}
			}
		case *ast.DeferStmt:
			sites = append(sites, site{"deldefer", dj, 0})
			dj++
		}
		return true
	})
	// second batch of operators: error swallowed in a return, string literal emptied
	rj, sj := 0, 0
	ast.Inspect(f, func(n ast.Node) bool {
		switch x := n.(type) {
		case *ast.ReturnStmt:
			for k, e := range x.Results {
				if id, ok := e.(*ast.Ident); ok && (id.Name == "err" || strings.HasPrefix(id.Name, "Err")) {
					sites = append(sites, site{"retnil", rj, k})
				}
			}
			rj++
		case *ast.BasicLit:
			if x.Kind == token.STRING && len(x.Value) > 2 {
				sites = append(sites, site{"strempty", sj, 0})
			}
			sj++
		}
		return true
	})
	// statement deletion sites
	si := 0
	ast.Inspect(f, func(n ast.Node) bool {
		if b, ok := n.(*ast.BlockStmt); ok {
			for range b.List {
				sites = append(sites, site{"delstmt", si, 0})
				si++
			}
		}
		return true
	})
	for _, s := range sites {
		fset := token.NewFileSet()
		f, _ := parser.ParseFile(fset, rel, orig, parser.ParseComments)
		desc := ""
		bi, li, ii, ui, ci, si := 0, 0, 0, 0, 0, 0
		rj, sj := 0, 0
		done := false
		if s.kind == "identsub" {
			fd := f.Decls[s.idx/100000].(*ast.FuncDecl)
			names := localNames(fd)
			k := 0
			ast.Inspect(fd.Body, func(n ast.Node) bool {
				if id, ok := n.(*ast.Ident); ok && names[id.Name] && !done {
					if k == s.idx%100000 {
						other := sortedNames(names)[s.alt]
						desc = fmt.Sprintf("%s: identifier %s -> %s", fset.Position(id.Pos()), id.Name, other)
						id.Name = other
						done = true
					}
					k++
				}
				return !done
			})
		}
		if s.kind == "caseswap" || s.kind == "deldefer" {
			cj2, dj := 0, 0
			ast.Inspect(f, func(n ast.Node) bool {
				if done {
					return false
				}
				if x, ok := n.(*ast.BlockStmt); ok {
					for i := 0; i < len(x.List); i++ {
						if _, isCase := x.List[i].(*ast.CaseClause); isCase && i+1 < len(x.List) {
							if s.kind == "caseswap" && cj2 == s.idx {
								a, b := x.List[i].(*ast.CaseClause), x.List[i+1].(*ast.CaseClause)
								desc = fmt.Sprintf("%s: bodies of this case clause and the next swapped", fset.Position(a.Pos()))
								a.Body, b.Body = b.Body, a.Body
								done = true
								return false
							}
							cj2++
						}
						if _, isDefer := x.List[i].(*ast.DeferStmt); isDefer {
							if s.kind == "deldefer" && dj == s.idx {
								desc = fmt.Sprintf("%s: defer statement deleted", fset.Position(x.List[i].Pos()))
								x.List = append(append([]ast.Stmt{}, x.List[:i]...), x.List[i+1:]...)
								done = true
								return false
							}
							dj++
						}
					}
				}
				return true
			})
		}
		if s.kind == "unwrap" {
			// replace the call by its only argument, wherever it sits
			cj := 0
			replaceExprs(f, func(e ast.Expr) ast.Expr {
				if c, ok := e.(*ast.CallExpr); ok {
					if cj == s.idx && len(c.Args) == 1 && !done {
						desc = fmt.Sprintf("%s: call replaced by its argument", fset.Position(c.Pos()))
						done = true
						cj++
						return c.Args[0]
					}
					cj++
				}
				return e
			})
		}
		ast.Inspect(f, func(n ast.Node) bool {
			if done {
				return false
			}
			switch x := n.(type) {
			case *ast.ReturnStmt:
				if s.kind == "retnil" && rj == s.idx {
					desc = fmt.Sprintf("%s: returned error replaced by nil", fset.Position(x.Pos()))
					x.Results[s.alt] = ast.NewIdent("nil")
					done = true
				}
				rj++
			case *ast.BinaryExpr:
				if s.kind == "bin" && bi == s.idx {
					alt := binSwaps[x.Op][s.alt]
					desc = fmt.Sprintf("%s: binary operator %s -> %s", fset.Position(x.OpPos), x.Op, alt)
					x.Op = alt
					done = true
				}
				bi++
			case *ast.BasicLit:
				if s.kind == "strempty" && sj == s.idx && x.Kind == token.STRING {
					desc = fmt.Sprintf("%s: string literal %s emptied", fset.Position(x.Pos()), x.Value)
					x.Value = `""`
					done = true
					sj++
					li++
					return false
				}
				sj++
				if s.kind == "lit" && li == s.idx && x.Kind == token.INT {
					v, err := strconv.ParseInt(x.Value, 0, 64)
					if err == nil {
						nv := v + 1
						if s.alt == 1 {
							nv = v - 1
						}
						if nv >= 0 {
							desc = fmt.Sprintf("%s: constant %s -> %d", fset.Position(x.Pos()), x.Value, nv)
							x.Value = strconv.FormatInt(nv, 10)
							done = true
						}
					}
				}
				li++
			case *ast.IfStmt:
				if s.kind == "ifneg" && ii == s.idx {
					desc = fmt.Sprintf("%s: condition negated", fset.Position(x.Pos()))
					x.Cond = &ast.UnaryExpr{Op: token.NOT, X: &ast.ParenExpr{X: x.Cond}}
					done = true
				}
				ii++
			case *ast.UnaryExpr:
				if s.kind == "unot" && ui == s.idx && x.Op == token.NOT {
					desc = fmt.Sprintf("%s: negation removed", fset.Position(x.Pos()))
					x.Op = token.ADD // +x is invalid for bools: instead wrap below
					done = true
				}
				ui++
			case *ast.CallExpr:
				if s.kind == "swapargs" && ci == s.idx && len(x.Args) >= 2 {
					desc = fmt.Sprintf("%s: first two arguments swapped", fset.Position(x.Pos()))
					x.Args[0], x.Args[1] = x.Args[1], x.Args[0]
					done = true
				}
				ci++
			case *ast.BlockStmt:
				if s.kind == "delstmt" {
					for k := range x.List {
						if si == s.idx {
							switch x.List[k].(type) {
							case *ast.ExprStmt, *ast.AssignStmt, *ast.IncDecStmt, *ast.IfStmt, *ast.ReturnStmt:
								desc = fmt.Sprintf("%s: statement deleted", fset.Position(x.List[k].Pos()))
								x.List = append(append([]ast.Stmt{}, x.List[:k]...), x.List[k+1:]...)
								done = true
							}
							si++
							break
						}
						si++
					}
				}
			}
			return !done
		})
		if !done || desc == "" || strings.Contains(desc, "negation removed") {
			continue
		}
		if only := os.Getenv("MUTGEN_KINDS"); only != "" && !strings.Contains(","+only+",", ","+s.kind+",") {
			continue
		}
		var b bytes.Buffer
		if format.Node(&b, fset, f) != nil {
			continue
		}
		if bytes.Equal(b.Bytes(), orig) {
			continue
		}
		out = append(out, mutant{rel, desc, b.Bytes()})
	}
	return out
}

// replaceExprs applies fn to every expression slot that can hold a call (pre-order numbering of
// calls matches ast.Inspect's, because parents are visited before their children here too).
func replaceExprs(f *ast.File, fn func(ast.Expr) ast.Expr) {
	var walk func(n ast.Node)
	fix := func(e *ast.Expr) {
		if *e != nil {
			*e = fn(*e)
			walk(*e)
		}
	}
	walk = func(n ast.Node) {
		switch x := n.(type) {
		case *ast.File:
			for _, d := range x.Decls {
				walk(d)
			}
		case *ast.GenDecl:
			for _, sp := range x.Specs {
				if vs, ok := sp.(*ast.ValueSpec); ok {
					for i := range vs.Values {
						fix(&vs.Values[i])
					}
				}
			}
		case *ast.FuncDecl:
			if x.Body != nil {
				walk(x.Body)
			}
		case *ast.BlockStmt:
			for _, st := range x.List {
				walk(st)
			}
		case *ast.ExprStmt:
			fix(&x.X)
		case *ast.AssignStmt:
			for i := range x.Lhs {
				fix(&x.Lhs[i])
			}
			for i := range x.Rhs {
				fix(&x.Rhs[i])
			}
		case *ast.ReturnStmt:
			for i := range x.Results {
				fix(&x.Results[i])
			}
		case *ast.IfStmt:
			if x.Init != nil {
				walk(x.Init)
			}
			fix(&x.Cond)
			walk(x.Body)
			if x.Else != nil {
				walk(x.Else)
			}
		case *ast.ForStmt:
			if x.Init != nil {
				walk(x.Init)
			}
			if x.Cond != nil {
				fix(&x.Cond)
			}
			if x.Post != nil {
				walk(x.Post)
			}
			walk(x.Body)
		case *ast.RangeStmt:
			fix(&x.X)
			walk(x.Body)
		case *ast.SwitchStmt:
			if x.Init != nil {
				walk(x.Init)
			}
			if x.Tag != nil {
				fix(&x.Tag)
			}
			walk(x.Body)
		case *ast.CaseClause:
			for i := range x.List {
				fix(&x.List[i])
			}
			for _, st := range x.Body {
				walk(st)
			}
		case *ast.DeclStmt:
			walk(x.Decl)
		case *ast.DeferStmt:
			var e ast.Expr = x.Call
			walk(e)
		case *ast.CallExpr:
			fix(&x.Fun)
			for i := range x.Args {
				fix(&x.Args[i])
			}
		case *ast.BinaryExpr:
			fix(&x.X)
			fix(&x.Y)
		case *ast.UnaryExpr:
			fix(&x.X)
		case *ast.ParenExpr:
			fix(&x.X)
		case *ast.SelectorExpr:
			fix(&x.X)
		case *ast.IndexExpr:
			fix(&x.X)
			fix(&x.Index)
		case *ast.SliceExpr:
			fix(&x.X)
			if x.Low != nil {
				fix(&x.Low)
			}
			if x.High != nil {
				fix(&x.High)
			}
		case *ast.StarExpr:
			fix(&x.X)
		case *ast.CompositeLit:
			for i := range x.Elts {
				fix(&x.Elts[i])
			}
		case *ast.KeyValueExpr:
			fix(&x.Value)
		case *ast.FuncLit:
			walk(x.Body)
		}
	}
	walk(f)
}

// localNames collects parameters, results, receivers and every identifier defined in the body.
func localNames(fd *ast.FuncDecl) map[string]bool {
	names := map[string]bool{}
	add := func(fl *ast.FieldList) {
		if fl != nil {
			for _, f := range fl.List {
				for _, n := range f.Names {
					if n.Name != "_" {
						names[n.Name] = true
					}
				}
			}
		}
	}
	add(fd.Recv)
	add(fd.Type.Params)
	add(fd.Type.Results)
	ast.Inspect(fd.Body, func(n ast.Node) bool {
		switch x := n.(type) {
		case *ast.AssignStmt:
			if x.Tok == token.DEFINE {
				for _, l := range x.Lhs {
					if id, ok := l.(*ast.Ident); ok && id.Name != "_" {
						names[id.Name] = true
					}
				}
			}
		case *ast.RangeStmt:
			if x.Tok == token.DEFINE {
				for _, l := range []ast.Expr{x.Key, x.Value} {
					if id, ok := l.(*ast.Ident); ok && id.Name != "_" {
						names[id.Name] = true
					}
				}
			}
		case *ast.ValueSpec:
			for _, n := range x.Names {
				if n.Name != "_" {
					names[n.Name] = true
				}
			}
		}
		return true
	})
	return names
}

func sortedNames(m map[string]bool) []string {
	var out []string
	for k := range m {
		out = append(out, k)
	}
	sort.Strings(out)
	return out
}
