#!/bin/bash
# usage: tools/eval_own.sh <dir with patch.diff> <checks...> : suite must pass with the patch; then runs checks against a scratch worktree
export GOFLAGS=-mod=mod GOPROXY=off GOSUMDB=off GOTOOLCHAIN=local
D=$(realpath $1); shift
W=/tmp/owncheck-$$; OUT=/tmp/ownout-$$; mkdir -p $OUT
git -C /repo worktree add -q --detach $W HEAD || exit 2
trap 'git -C /repo worktree remove --force $W >/dev/null 2>&1; rm -rf $OUT' EXIT
git -C $W apply $D/patch.diff || { echo "PATCH DOES NOT APPLY"; exit 2; }
(cd $W && go build ./... && go build -tags verif ./... && go test -vet=off -count=1 ./... >/dev/null 2>&1) && echo "== existing suite PASS" || echo "== existing suite FAIL"
for c in "$@"; do
  out=$(VERIF_REPO=$W VERIF_OUT=$OUT ${VCHECK:-/verif/bin/vcheck} run $c 2>&1); rc=$?
  echo "== check $c: exit=$rc $(echo "$out" | grep -c '^VIOLATION') VIOLATION lines"
  echo "$out" | grep -A1 '^VIOLATION' | sed -n '2p' | cut -c1-400
done
