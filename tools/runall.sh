#!/bin/bash
# Runs every claimed check (quick by default) on /repo as it is and validates the evidence.
TIER=${1:-quick}
cd /verif
fail=0
for id in $(python3 -c "import json;print(' '.join(c['property_id'] for c in json.load(open('MANIFEST.json'))['checks']))"); do
  out=$(/verif/bin/vcheck run $id --tier $TIER 2>&1); rc=$?
  echo "$id rc=$rc $(echo "$out" | tail -1)"
  [ $rc != 0 ] && { fail=1; echo "$out" | grep -A1 '^VIOLATION' | head -6; }
done
python3-vt - <<'PY'
import json,jsonschema,glob
sch=json.load(open('/root/.vp/EVIDENCE.schema.json'))
man=json.load(open('/verif/MANIFEST.json'))
jsonschema.validate(man,json.load(open('/root/.vp/MANIFEST.schema.json')))
for c in man['checks']:
    ev=json.load(open(c['evidence_file'])); jsonschema.validate(ev,sch)
    assert ev['level']==c['level_claimed']['category'],(c['property_id'])
print('manifest + evidence valid')
PY
exit $fail
