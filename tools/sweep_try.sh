#!/bin/bash
# usage: tools/sweep_try.sh <sweep dir> <mutant id> <check>...  runs checks on one mechanical mutant in a scratch worktree
M=$1/m/$2; shift 2
W=/tmp/swtry-$$; OUT=/tmp/swout-$$
git -C /repo worktree add -q --detach $W HEAD || exit 2
trap 'git -C /repo worktree remove --force $W >/dev/null 2>&1; rm -rf $OUT' EXIT
rel=$(head -1 $M/desc.txt); cp $M/$rel $W/$rel
echo "== $(sed -n 2p $M/desc.txt)"
for c in "$@"; do
  out=$(VERIF_REPO=$W VERIF_OUT=$OUT ${VCHECK:-/verif/bin/vcheck} run $c --tier ${TIER:-quick} 2>&1); rc=$?
  echo "$c exit=$rc"; echo "$out" | grep -A1 '^VIOLATION' | head -2 | cut -c1-400
done
