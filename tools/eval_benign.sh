#!/bin/bash
# usage: tools/eval_benign.sh <dir with patch.diff> [checks...]: a behaviour-preserving change must not raise any alarm
export GOFLAGS=-mod=mod GOPROXY=off GOSUMDB=off GOTOOLCHAIN=local
D=$(realpath $1); shift
CHECKS="$@"; [ -z "$CHECKS" ] && CHECKS="C01 C02 C03 C04 C05 C06 C07 C08 C09 C10 C11 C12 C13 C14 C15 C16 C17"
W=/tmp/benign-$$; OUT=/tmp/benignout-$$; mkdir -p $OUT
git -C /repo worktree add -q --detach $W HEAD || exit 2
trap 'git -C /repo worktree remove --force $W >/dev/null 2>&1; rm -rf $OUT' EXIT
git -C $W apply $D/patch.diff || { echo "PATCH DOES NOT APPLY"; exit 2; }
(cd $W && go build ./... && go build -tags verif ./... && go test -vet=off -count=1 ./... >/dev/null 2>&1) && echo "== existing suite PASS" || echo "== existing suite FAIL"
for c in $CHECKS; do
  out=$(VERIF_REPO=$W VERIF_OUT=$OUT ${VCHECK:-/verif/bin/vcheck} run $c 2>&1); rc=$?
  if [ $rc != 0 ]; then
    echo "== check $c: exit=$rc $(echo "$out" | grep -c '^VIOLATION') VIOLATION lines"
    echo "$out" | grep -A1 '^VIOLATION' | sed -n '2p;5p' | cut -c1-500
    [ $rc = 2 ] && echo "$out" | tail -5 | cut -c1-300
  fi
done
echo "== done"
