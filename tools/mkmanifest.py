#!/usr/bin/env python3
"""Writes /verif/MANIFEST.json from the table below (kept in one place so that
the manifest stays consistent with what is implemented)."""
import json, os, sys

HERE = os.path.dirname(os.path.dirname(os.path.abspath(__file__)))

TB = "Go 1.23.5 toolchain and stdlib (crypto/sha256, crypto/sha512, crypto/hmac); golden word lists pinned by SHA-256 (english digest independently known, nine trust-on-first-use); this machinery"
TBU = TB + "; CPython 3.11 unicodedata (Unicode 14) as the normalisation oracle"

# id -> (category, technique, text, design_ref, level_note, engine)
CHECKS = {
 "C01": ("exploration", "bounded-exhaustive input-shape enumeration on the real encoder vs an independent bit-array reference; cold-start child processes (first library call an encoding / a validation in each language, then all languages)",
         "Every member of the entropy scopes (every (size, word position, 11-bit index) cell, every first hash byte at every checksum width, all 1^a0^b1^c / 0^a1^b0^c runs, Hamming balls around 0s/1s, 32-bit block alphabet) x 10 languages is encoded by the real NewMnemonicByEntropy and compared for string equality with a reference encoder that shares neither algorithm nor word data with the implementation. The encoder has no value-dependent branch, so shape coverage (measured as full coverage matrices) is the right bound; totality over 2^256 values is not claimed.",
         "DESIGN.md 4.C01", TB, "E-IN"),
 "C02": ("exploration", "bounded-exhaustive enumeration: generate->validate round trip and reference-valid sentences on the real validator; cold-start child processes (first library call an encoding / a validation in each language, then all languages)",
         "For every entropy of the scopes x 10 languages the implementation's own mnemonic and the reference sentence (U+0020 and U+3000 joined) must be accepted by CheckMnemonic and IsMnemonicValid; scopes contain every number of leading zero bytes/bits and every list word at every position. NewMnemonic output through a scripted source is validated too.",
         "DESIGN.md 4.C02", TB, "E-IN"),
 "C03": ("exploration", "bounded-exhaustive sentence-mutation enumeration (full last-word sweeps, substitutions, transpositions, counts, foreign words, damage, short byte strings) vs reference validator; cold-start child processes (first library call an encoding / a validation in each language, then all languages)",
         "One-directional oracle exactly as stated: whenever the implementation accepts, the reference validator must accept; accepted last-word sets must have exactly 2^(11-n/3) members for every explored prefix; IsMnemonicValid == (CheckMnemonic == nil) on every input.",
         "DESIGN.md 4.C03", TB, "E-IN"),
 "C05": ("exploration", "bounded-exhaustive enumeration with an independent decoder; all single-bit flips of base entropies",
         "The implementation's mnemonic is decoded by an independent bit-array decoder over golden dictionaries and must give back the input bytes for every entropy of the scopes x 10 languages; every single-bit flip of 8 bases per size changes the mnemonic; injectivity by counting distinct mnemonics.",
         "DESIGN.md 4.C05", TB, "E-IN"),
 "C09": ("exploration", "exhaustive enumeration of lengths 0..4096 (+nil, powers of two) and counts [-4096,4096] (+int boundaries) with a counting source",
         "Success iff one of the five sizes; rejection returns the empty string and the sentinel (errors.Is) and performs zero Read calls on the source; success returns the right number of words and nil.",
         "DESIGN.md 4.C09", TB + "; verif hook VerifSwapRandSource", "E-IN"),
 "C15": ("exploration", "bounded-exhaustive single-defect sentence enumeration classified by the reference validator",
         "Canonical sentences with exactly one class of defect (count / checksum / unknown token) over all languages and counts must yield ErrWordLen / ErrChecksumIncorrect / a distinct error naming an unknown token; valid ones nil.",
         "DESIGN.md 4.C15", TB, "E-IN"),
 "C16": ("exploration", "exhaustive enumeration of Language values in [-2^20,2^20] (thorough 2^24) plus all int boundaries",
         "Ten declared constants print their identifiers, all other values print Language(N); panics are violations.",
         "DESIGN.md 4.C16", TB, "E-IN"),
}

CHECKS.update({
 "C04": ("exploration", "bounded-exhaustive enumeration of (mnemonic, passphrase) pairs over a Unicode probe alphabet and length ladders vs an independent PBKDF2 over CPython-NFKD forms",
         "All pairs of short strings over a 16-letter alphabet chosen to hit every normalisation mechanism, for both arguments, plus byte-length ladders across the HMAC-SHA512 block/padding boundaries and combining-mark runs; byte equality with a hand-written PBKDF2 (cross-checked against OpenSSL each run) over NFKD forms computed by CPython; result length and freshness. The x/text Stream-Safe deviation (>30 non-starters) is a recorded known finding keyed by exact inputs.",
         "DESIGN.md 4.C04", TBU, "E-IN"),
 "C06": ("fault_enumeration", "exhaustive enumeration of randomness-source answer scripts (failure point x kind x bytes alongside x fragmentation; all compositions; zero-length reads) on the real NewMnemonic",
         "Every script of the stated families is executed against the real NewMnemonic through the verif swap hook; the stream has a distinct value at every offset so any misplaced, dropped or zero-padded byte is visible. Fail-closed on every early failure; exact reference encoding of the delivered bytes on success.",
         "DESIGN.md 4.C06", TB + "; verif hook VerifSwapRandSource", "E-FAULT"),
 "C07": ("model_checking", "explicit-state BFS over call histories (fresh process per transition, fixpoint over package-state fingerprints) with the invariant source == crypto/rand.Reader",
         "In every reachable package state of the no-swap alphabet, and at every process start, the source variable holds crypto/rand.Reader itself. Byte-exact dependence of the output on the source is C06's oracle. Statistics of the OS generator are out of scope.",
         "DESIGN.md 4.C07", TB + "; verif hook VerifSwapRandSource; generated state accessor (overlay, not committed)", "E-HIST"),
 "C08": ("exploration", "complete enumeration of the finite domain 10 languages x 2048 indices through the API, digests, well-formedness, validation round trip, source text; re-enumeration after every entry point incl. failing paths was exercised; cold-start child processes (first library call in each language)",
         "Every (language, index) is observed at every word position of every size and compared byte-for-byte with the golden lists; observed lists are re-hashed against pinned digests; each word is mapped back by validation probes; the source text of internal/wordlist is parsed and compared.",
         "DESIGN.md 4.C08", TB, "E-IN"),
 "C10": ("exploration", "bounded-exhaustive enumeration of NFKD-equal spelling pairs (all list words x all single-code-point respellings / normal forms / separators) on the real validator; cold-start child processes (first library call an encoding / a validation in each language, then all languages)",
         "For every pair of strings that CPython says have the same NFKD form the real CheckMnemonic must return the same verdict class, and valid sentences must be accepted in every spelling.",
         "DESIGN.md 4.C10", TBU, "E-IN"),
 "C11": ("exploration", "bounded-exhaustive enumeration of NFKD-equal (mnemonic, passphrase) pairs on the real MnemonicToSeed, differential + reference PBKDF2",
         "Cover sentences containing every list word of every language in NFC/NFD/NFKC/full-width and with U+3000 separators, passphrase forms, mark runs: equal seeds within each pair and equal to the reference. The Stream-Safe deviation is a recorded known finding keyed by exact pairs.",
         "DESIGN.md 4.C11", TBU, "E-IN"),
 "C13": ("model_checking", "explicit-state BFS over API call histories to a fixpoint; each transition executed in a fresh process; differential oracle against the fresh-state outcome",
         "All reachable package states (fingerprint of every package-level variable) x the operation alphabet; every executed call must return what it returns in a fresh process, caller buffers and earlier results must stay intact; plus the complete ordered first-use matrix of language pairs, long repetitions, and fill histories over many distinct arguments with re-use at every power-of-two distance.",
         "DESIGN.md 4.C13", TB + "; generated state accessor (overlay, not committed); dependencies assumed observationally stateless", "E-HIST"),
 "C14": ("exploration", "bounded-exhaustive enumeration of hostile arguments (all short byte strings incl. ill-formed UTF-8, all 2-byte tokens, Language ranges and int boundaries, size ladders, all lengths/counts, and every case of the sentence mutation scopes of C03/C15) with panic recovery and a hang watchdog",
         "Every call must return; panics are recovered per call and reported; a 180 s watchdog reports hangs.",
         "DESIGN.md 4.C14", TB, "E-IN"),
})

CHECKS.update({
 "C17": ("exploration", "exhaustive enumeration of small upstream word files (all files of <=3/4 lines over a line alphabet, trailing-LF variants, size ladder, canonical lists) fed to the real generator binary over loopback; regeneration histories (all ordered pairs of six input shapes as two runs in one directory); enumerated environment answers (delivery in pieces, connection dropped, transfer cut at enumerated offsets, blocked output path) with the oracle exit 0 => ten faithful files",
         "The real update-wordlist binary is executed for every enumerated input file; each generated file must parse, declare the promised variable and contain exactly the non-empty input lines; the canonical run must reproduce the committed lists and compile.",
         "DESIGN.md 4.C17", TB + "; verif hook in update-wordlist (transport-level redirect); loopback networking", "E-GEN"),
})

CHECKS.update({
 "C12": ("exploration", "stateless schedule exploration with preemption bounding (controlled cooperative scheduler over an instrumented copy of the package, sync shims, vector-clock happens-before detector); supplementary free-running -race pass",
         "For 54 (quick) / 100+ (thorough) closed scenarios of 2-3 goroutines with forced collisions on cold lazily built state, every schedule with at most 2 (thorough 3) preemptions at variable-level scheduling points, and every schedule with at most 1 (thorough 2) preemptions at statement-level scheduling points, is executed from a cold package state; each call must return what it returns alone, no deadlock, no happens-before race. Outside the bound: more than 3 goroutines, more preemptions, interleavings inside a single statement (only the sampling race pass reaches those), weak-memory effects.",
         "DESIGN.md 2.5, 4.C12", TB + "; instrumenter and shims (semantically neutral insertions); generated state accessor; Go race detector for the supplementary pass", "E-SCHED"),
})

NOT_YET = {
}

def main():
    props = [json.loads(l) for l in open(os.path.join(HERE, "properties.jsonl"))]
    checks = []
    na = []
    for p in props:
        pid = p["id"]
        if pid in CHECKS:
            cat, tech, text, dref, note, eng = CHECKS[pid]
            checks.append({
                "property_id": pid,
                "quick_cmd": f"/verif/bin/vcheck run {pid} --tier quick",
                "thorough_cmd": f"/verif/bin/vcheck run {pid} --tier thorough",
                "evidence_file": f"/verif/evidence/{pid}.json",
                "replay_cmd_template": "/verif/bin/vcheck replay {path}",
                "engine": eng,
                "level_claimed": {"category": cat, "text": text, "design_ref": dref},
                "level_note": note,
                "technique": "model checking: " + tech,
            })
        else:
            na.append({"property_id": pid, "reason": NOT_YET.get(pid, "check not implemented yet in this commit (planned, see DESIGN.md section 3); not claimed until it is")})
    man = {
        "version": 1,
        "setup_cmd": "cd /verif && ./setup.sh",
        "hooks": {
            "guard": "verif (Go build tag)",
            "enable": "go build -tags verif (the worker is rebuilt from /repo's working tree by every check)",
            "baseline_off_cmd": "cd /repo && GOFLAGS=-mod=mod GOPROXY=off GOSUMDB=off GOTOOLCHAIN=local go test -json -vet=off -count=1 -timeout 25m ./...",
            "source_commits": ["7d5c542", "e270da6"],
            "add_only": True,
        },
        "engines": [
            {"name": "E-IN", "path": "/verif/cmd/worker", "serves_properties": ["C01","C02","C03","C04","C05","C08","C09","C10","C11","C14","C15","C16"], "kind_free_text": "bounded-exhaustive input-shape enumeration on the real package, compared case by case with an independent reference model"},
            {"name": "E-FAULT", "path": "/verif/cmd/worker", "serves_properties": ["C06","C07","C09"], "kind_free_text": "enumeration of all randomness-source answer scripts with <= d deviations (short read, zero read, error with/without bytes)"},
            {"name": "E-HIST", "path": "/verif/cmd/vcheck", "serves_properties": ["C13","C07"], "kind_free_text": "explicit-state BFS over API call histories; each transition is executed in a fresh process; state = canonical fingerprint of all package-level variables"},
            {"name": "E-SCHED", "path": "/verif/shim", "serves_properties": ["C12"], "kind_free_text": "stateless schedule exploration with iterative preemption bounding over an instrumented copy of the package (cooperative scheduler, sync shims, happens-before detector)"},
            {"name": "E-GEN", "path": "/verif/cmd/vcheck", "serves_properties": ["C17"], "kind_free_text": "exhaustive enumeration of small upstream word files served to the real update-wordlist binary over loopback"},
        ],
        "checks": checks,
        "not_applicable": na,
        "notes": "All checks are `vcheck run <id>`; exit 0 = held (KNOWN-FINDING lines possible), 1 = VIOLATION, 2 = machinery failure. Known findings: /verif/known_findings.json.",
    }
    with open(os.path.join(HERE, "MANIFEST.json"), "w") as f:
        json.dump(man, f, indent=1, ensure_ascii=False)
        f.write("\n")
    print("claimed:", [c["property_id"] for c in checks])
    print("not claimed:", [n["property_id"] for n in na])

if __name__ == "__main__":
    main()
