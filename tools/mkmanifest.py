#!/usr/bin/env python3
"""Writes /verif/MANIFEST.json from the table below (kept in one place so that
the manifest stays consistent with what is implemented)."""
import json, os, sys

HERE = os.path.dirname(os.path.dirname(os.path.abspath(__file__)))

TB = "Go 1.23.5 toolchain and stdlib (crypto/sha256, crypto/sha512, crypto/hmac); golden word lists pinned by SHA-256 (english digest independently known, nine trust-on-first-use); this machinery"
TBU = TB + "; CPython 3.11 unicodedata (Unicode 14) as the normalisation oracle"

# id -> (category, technique, text, design_ref, level_note, engine)
CHECKS = {
 "C01": ("exploration", "bounded-exhaustive input-shape enumeration on the real encoder vs an independent bit-array reference",
         "Every member of the entropy scopes (every (size, word position, 11-bit index) cell, every first hash byte at every checksum width, all 1^a0^b1^c / 0^a1^b0^c runs, Hamming balls around 0s/1s, 32-bit block alphabet) x 10 languages is encoded by the real NewMnemonicByEntropy and compared for string equality with a reference encoder that shares neither algorithm nor word data with the implementation. The encoder has no value-dependent branch, so shape coverage (measured as full coverage matrices) is the right bound; totality over 2^256 values is not claimed.",
         "DESIGN.md 4.C01", TB, "E-IN"),
 "C02": ("exploration", "bounded-exhaustive enumeration: generate->validate round trip and reference-valid sentences on the real validator",
         "For every entropy of the scopes x 10 languages the implementation's own mnemonic and the reference sentence (U+0020 and U+3000 joined) must be accepted by CheckMnemonic and IsMnemonicValid; scopes contain every number of leading zero bytes/bits and every list word at every position. NewMnemonic output through a scripted source is validated too.",
         "DESIGN.md 4.C02", TB, "E-IN"),
 "C03": ("exploration", "bounded-exhaustive sentence-mutation enumeration (full last-word sweeps, substitutions, transpositions, counts, foreign words, damage, short byte strings) vs reference validator",
         "One-directional oracle exactly as stated: whenever the implementation accepts, the reference validator must accept; accepted last-word sets must have exactly 2^(11-n/3) members for every explored prefix; IsMnemonicValid == (CheckMnemonic == nil) on every input.",
         "DESIGN.md 4.C03", TB, "E-IN"),
 "C05": ("exploration", "bounded-exhaustive enumeration with an independent decoder; all single-bit flips of base entropies",
         "The implementation's mnemonic is decoded by an independent bit-array decoder over golden dictionaries and must give back the input bytes for every entropy of the scopes x 10 languages; every single-bit flip of 8 bases per size changes the mnemonic; injectivity by counting distinct mnemonics.",
         "DESIGN.md 4.C05", TB, "E-IN"),
 "C09": ("exploration", "exhaustive enumeration of lengths 0..4096 (+nil, powers of two) and counts [-4096,4096] (+int boundaries) with a counting source",
         "Success iff one of the five sizes; rejection returns the empty string and the sentinel (errors.Is) and performs zero Read calls on the source; success returns the right number of words and nil.",
         "DESIGN.md 4.C09", TB + "; verif hook VerifSwapRandSource", "E-IN"),
 "C15": ("exploration", "bounded-exhaustive single-defect sentence enumeration classified by the reference validator",
         "Canonical sentences with exactly one class of defect (count / checksum / unknown token) over all languages and counts must yield ErrWordLen / ErrChecksumIncorrect / a distinct error naming an unknown token; valid ones nil.",
         "DESIGN.md 4.C15", TB, "E-IN"),
 "C16": ("exploration", "exhaustive enumeration of Language values in [-2^20,2^20] (thorough 2^24) plus all int boundaries",
         "Ten declared constants print their identifiers, all other values print Language(N); panics are violations.",
         "DESIGN.md 4.C16", TB, "E-IN"),
}

NOT_YET = {
}

def main():
    props = [json.loads(l) for l in open(os.path.join(HERE, "properties.jsonl"))]
    checks = []
    na = []
    for p in props:
        pid = p["id"]
        if pid in CHECKS:
            cat, tech, text, dref, note, eng = CHECKS[pid]
            checks.append({
                "property_id": pid,
                "quick_cmd": f"/verif/bin/vcheck run {pid} --tier quick",
                "thorough_cmd": f"/verif/bin/vcheck run {pid} --tier thorough",
                "evidence_file": f"/verif/evidence/{pid}.json",
                "replay_cmd_template": "/verif/bin/vcheck replay {path}",
                "engine": eng,
                "level_claimed": {"category": cat, "text": text, "design_ref": dref},
                "level_note": note,
                "technique": "model checking: " + tech,
            })
        else:
            na.append({"property_id": pid, "reason": NOT_YET.get(pid, "check not implemented yet in this commit (planned, see DESIGN.md section 3); not claimed until it is")})
    man = {
        "version": 1,
        "setup_cmd": "cd /verif && ./setup.sh",
        "hooks": {
            "guard": "verif (Go build tag)",
            "enable": "go build -tags verif (the worker is rebuilt from /repo's working tree by every check)",
            "baseline_off_cmd": "cd /repo && GOFLAGS=-mod=mod GOPROXY=off GOSUMDB=off GOTOOLCHAIN=local go test -json -vet=off -count=1 -timeout 25m ./...",
            "source_commits": ["7d5c542", "e270da6"],
            "add_only": True,
        },
        "engines": [
            {"name": "E-IN", "path": "/verif/cmd/worker", "serves_properties": ["C01","C02","C03","C04","C05","C08","C09","C10","C11","C14","C15","C16"], "kind_free_text": "bounded-exhaustive input-shape enumeration on the real package, compared case by case with an independent reference model"},
            {"name": "E-FAULT", "path": "/verif/cmd/worker", "serves_properties": ["C06","C07","C09"], "kind_free_text": "enumeration of all randomness-source answer scripts with <= d deviations (short read, zero read, error with/without bytes)"},
            {"name": "E-HIST", "path": "/verif/cmd/vcheck", "serves_properties": ["C13","C07"], "kind_free_text": "explicit-state BFS over API call histories; each transition is executed in a fresh process; state = canonical fingerprint of all package-level variables"},
            {"name": "E-SCHED", "path": "/verif/shim", "serves_properties": ["C12"], "kind_free_text": "stateless schedule exploration with iterative preemption bounding over an instrumented copy of the package (cooperative scheduler, sync shims, happens-before detector)"},
            {"name": "E-GEN", "path": "/verif/cmd/vcheck", "serves_properties": ["C17"], "kind_free_text": "exhaustive enumeration of small upstream word files served to the real update-wordlist binary over loopback"},
        ],
        "checks": checks,
        "not_applicable": na,
        "notes": "All checks are `vcheck run <id>`; exit 0 = held (KNOWN-FINDING lines possible), 1 = VIOLATION, 2 = machinery failure. Known findings: /verif/known_findings.json.",
    }
    with open(os.path.join(HERE, "MANIFEST.json"), "w") as f:
        json.dump(man, f, indent=1, ensure_ascii=False)
        f.write("\n")
    print("claimed:", [c["property_id"] for c in checks])
    print("not claimed:", [n["property_id"] for n in na])

if __name__ == "__main__":
    main()
