#!/bin/bash
# usage: tools/eval_mutants.sh [tier] <Cxx>...   evaluates /tmp/mut/<Cxx>/_out/m* and writes /tmp/mut/results/<Cxx>-<m>.log
TIER=quick
if [ "${1:-}" = quick ] || [ "${1:-}" = thorough ]; then TIER=$1; shift; fi
mkdir -p /tmp/mut/results
declare -A REL=( [C01]="C01 C05 C08 C13" [C02]="C02 C13" [C03]="C03 C15" [C04]="C04 C11" [C05]="C05 C01" [C06]="C06" [C07]="C07" [C08]="C08 C02" [C09]="C09" [C10]="C10" [C11]="C11 C04" [C12]="C12" [C13]="C13" [C14]="C14" [C15]="C15 C03 C13" [C16]="C16 C14" [C17]="C17" )
for id in "$@"; do
  for d in /tmp/mut/$id/_out/m*; do
    [ -f $d/patch.diff ] || continue
    m=$(basename $d)
    DEMORUN=${DEMORUN:-Demo} /verif/tools/mutant.sh $d $TIER ${REL[$id]} > /tmp/mut/results/$id-$m.log 2>&1
    echo "$id-$m: $(grep -E '^== (clean|changed|check)' /tmp/mut/results/$id-$m.log | sed -e 's/== //' -e 's/ VIOLATION lines//' | tr '\n' ';')"
  done
done
