#!/usr/bin/env python3
"""Copies confirmed seeded changes from /tmp/mut/<Cxx>/_out/m* into /verif/seeded/<Cxx>-m*/
with a meta.json built from the agent's description and the evaluation log."""
import json, os, re, shutil, sys, glob
TAG = os.environ.get("ROUND", "")  # e.g. ROUND=r2 -> seeded/C01-r2-m1
for pid in sys.argv[1:]:
    for d in sorted(glob.glob(f"/tmp/mut/{pid}/_out/m*")):
        m = os.path.basename(d)
        log = f"/tmp/mut/results/{pid}-{m}.log"
        if not os.path.exists(log):
            print("no log for", d); continue
        L = open(log).read()
        ok = ("clean tree: demo -> PASS" in L and "existing suite PASS" in L and "changed tree: demo -> FAIL" in L)
        if not ok:
            print("NOT CONFIRMED", d); continue
        checks = re.findall(r"== check (C\d+) \((\w+)\): exit=(\d)", L)
        dst = f"/verif/seeded/{pid}-{TAG + '-' if TAG else ''}{m}"
        os.makedirs(dst, exist_ok=True)
        shutil.copy(os.path.join(d, "patch.diff"), dst)
        for f in glob.glob(os.path.join(d, "*_test.go")):
            shutil.copy(f, dst)
        if os.path.isdir(os.path.join(d, "demo")):
            shutil.copytree(os.path.join(d, "demo"), os.path.join(dst, "demo"), dirs_exist_ok=True)
        try:
            am = json.load(open(os.path.join(d, "meta.json")))
        except Exception as e:
            am = {"summary": "(agent meta unreadable)", "needs": ""}
        first = re.findall(r"^VIOLATION.*\n(.*)", L, re.M)
        meta = {
            "property": pid,
            "summary": am.get("summary", ""),
            "needs_to_manifest": am.get("needs", ""),
            "origin": "written by an independent sub-agent that saw only the property text and a scratch worktree",
            "confirmed_by_me": {
                "how": "tools/mutant.sh in a scratch worktree of /repo HEAD: demonstration on clean tree, git apply, go build ./... (with and without -tags verif), full existing suite, demonstration on changed tree; then the listed checks with VERIF_REPO pointing at that worktree",
                "clean_tree_demo": "PASS", "changed_tree_existing_suite": "PASS", "changed_tree_demo": "FAIL",
            },
            "checks_run": [{"check": c, "tier": t, "exit": int(e), "detected": e == "1"} for c, t, e in checks],
            "detected_by": sorted({c for c, t, e in checks if e == "1"}),
            "first_violation_reported": first[0].strip()[:400] if first else "",
        }
        json.dump(meta, open(os.path.join(dst, "meta.json"), "w"), indent=1, ensure_ascii=False)
        print(dst, "detected_by", meta["detected_by"])
