package main

import (
	"bytes"
	"crypto/sha256"
	"encoding/hex"
	"fmt"
	"go/ast"
	"go/parser"
	"go/token"
	"os"
	"path/filepath"
	"strconv"
	"strings"
	"sync/atomic"
	"unicode"

	bip39 "github.com/islishude/bip39"
	"golang.org/x/text/unicode/norm"

	"verif/internal/enum"
	"verif/internal/ref"
)

func init() { registry["C08"] = runC08 }

// entropyWithWindow returns an L-byte entropy (background bg) whose 11-bit
// window p holds value v (p must be a full window).
func entropyWithWindow(L, p, v int, bg byte) []byte {
	e := make([]byte, L)
	for i := range e {
		e[i] = bg
	}
	setWindow(e, p, v)
	return e
}

func setWindow(e []byte, p, v int) {
	for k := 0; k < 11; k++ {
		pos := p*11 + k
		bit := byte(v>>uint(10-k)) & 1
		if bit == 1 {
			e[pos/8] |= 1 << uint(7-pos%8)
		} else {
			e[pos/8] &^= 1 << uint(7-pos%8)
		}
	}
}

func runC08(c *Ctx) {
	c.res.Rule = "finite domain 10 languages x 2048 indices, enumerated completely: (a) the word emitted by NewMnemonicByEntropy for index i placed in every full 11-bit window of every entropy size must equal golden[lang][i]; the list observed through the API is re-hashed and compared with the pinned digest and checked for 2048 distinct, non-empty, whitespace-free, NFKD-stable (x/text; golden is checked with CPython at setup) words; (b) for every (language, i) reference-valid sentences with word i at each of positions 0..10 of a 12-word sentence and position 12 of a 24-word sentence must be accepted, and the same sentences with word i replaced by word i^1 must be judged like the reference judges them (thorough: full 2048-word last-word sweep for every (language, i) at position 0); (c) the source text of internal/wordlist/*.go is parsed and compared with golden; (d) every (language, index) emitted once more after every entry point was exercised in every language, failing paths included. distinct_nontrivial = distinct (language, index) pairs observed through the API Cold-start phase: for each of the ten languages a fresh child process whose first library call is an encoding (resp. a validation) in that language, followed by all ten languages, compared with the reference (what depends on which language - or the zero value of Language - came first)."
	defer c.coldStartPhase("enc")
	c.Assume("golden lists are canonical (english digest independently known; nine digests trust-on-first-use)")
	type job struct{ l, i int }
	var observedPairs int64
	observed := make([][]string, ref.NLang)
	for l := range observed {
		observed[l] = make([]string, 2048)
	}
	Par(c.NCPU, func(emit func(job)) {
		for l := 0; l < ref.NLang; l++ {
			for i := 0; i < 2048; i++ {
				emit(job{l, i})
			}
		}
	}, func(j job) {
		l, i := j.l, j.i
		want := c.M.List[l][i]
		sep := ref.Sep(l)
		first := true
		for _, L := range enum.EntLens {
			full := (8 * L) / 11
			for p := 0; p < full; p++ {
				for _, bg := range []byte{0x00, 0xFF} {
					e := entropyWithWindow(L, p, i, bg)
					var got string
					var err error
					pn := call(func() { got, err = bip39.NewMnemonicByEntropy(e, Langs[l]) })
					c.Eval(1)
					if pn != "" || err != nil {
						c.Violate(fmt.Sprintf("list:%d:%d", l, i), fmt.Sprintf("NewMnemonicByEntropy(%x,%s) failed: %v %s", e, ref.LangNames[l], err, pn), encodeCase(e, l))
						continue
					}
					words := strings.Split(got, sep)
					w := ""
					if p < len(words) {
						w = words[p]
					}
					if first {
						observed[l][i] = w
						first = false
					}
					if w != want {
						c.Violate(fmt.Sprintf("list:%d:%d", l, i),
							fmt.Sprintf("%s index %d at word position %d of a %d-byte entropy is emitted as %q (% x), canonical word is %q (% x)", ref.LangNames[l], i, p, L, w, w, want, want),
							encodeCase(e, l))
					}
				}
			}
		}
		atomic.AddInt64(&observedPairs, 1)
		// (b) validation maps word i back to index i
		probe := func(L, p int) {
			e := make([]byte, L)
			e[L-1] = byte(i*7 + p) // vary the tail so that different last words are used
			setWindow(e, p, i)
			words := c.M.Words(e, l)
			s := strings.Join(words, " ")
			err, pn := c.validate(s, Langs[l])
			if pn != "" || err != nil {
				c.Violate(fmt.Sprintf("check:%s:%d", hs(s), l),
					fmt.Sprintf("valid sentence with %s word #%d (%q) at position %d rejected: %v %s", ref.LangNames[l], i, want, p, err, pn),
					map[string]interface{}{"kind": "check", "sentence": hs(s), "lang": l, "expect": "valid"})
			}
			// neighbour word in the same place, same remaining words
			alt := append([]string(nil), words...)
			alt[p] = c.M.List[l][i^1]
			s2 := strings.Join(alt, " ")
			v, _ := c.M.ValidateTokens(alt, l)
			err2, pn2 := c.validate(s2, Langs[l])
			if pn2 == "" && (err2 == nil) != (v == ref.VValid) {
				c.Violate(fmt.Sprintf("check:%s:%d", hs(s2), l),
					fmt.Sprintf("sentence with %s word #%d at position %d: implementation says %v, reference verdict %q", ref.LangNames[l], i^1, p, err2, v),
					map[string]interface{}{"kind": "check", "sentence": hs(s2), "lang": l, "expect": map[bool]string{true: "valid", false: "reject"}[v == ref.VValid]})
			}
		}
		for p := 0; p <= 10; p++ {
			probe(16, p)
		}
		probe(32, 12)
		if c.Thorough {
			base := c.M.Words(entropyWithWindow(16, 0, i, 0x00), l)
			acc := 0
			for x := 0; x < 2048; x++ {
				t := append(append([]string(nil), base[:11]...), c.M.List[l][x])
				s := strings.Join(t, " ")
				err, pn := c.validate(s, Langs[l])
				v, _ := c.M.ValidateTokens(t, l)
				if pn == "" && (err == nil) != (v == ref.VValid) {
					c.Violate(fmt.Sprintf("check:%s:%d", hs(s), l),
						fmt.Sprintf("last-word sweep for %s word #%d: implementation says %v, reference verdict %q for %q", ref.LangNames[l], i, err, v, s),
						map[string]interface{}{"kind": "check", "sentence": hs(s), "lang": l, "expect": map[bool]string{true: "valid", false: "reject"}[v == ref.VValid]})
				}
				if err == nil {
					acc++
				}
			}
			_ = acc
		}
	})
	c.AddScope("(language, index) x every full window of every size x 2 backgrounds", 10*2048, true, "")
	// list-level well-formedness of what was observed through the API
	digests := map[string]string{}
	for l := 0; l < ref.NLang; l++ {
		seen := map[string]int{}
		h := sha256.New()
		for i, w := range observed[l] {
			h.Write([]byte(w))
			h.Write([]byte{'\n'})
			bad := ""
			if w == "" {
				bad = "empty word"
			} else if j, dup := seen[w]; dup {
				bad = fmt.Sprintf("duplicate of index %d", j)
			} else if strings.IndexFunc(w, unicode.IsSpace) >= 0 {
				bad = "contains white space"
			} else if !norm.NFKD.IsNormalString(w) {
				bad = "not NFKD-stable"
			}
			seen[w] = i
			if bad != "" {
				c.Violate(fmt.Sprintf("wellformed:%d:%d", l, i), fmt.Sprintf("%s word #%d %q: %s", ref.LangNames[l], i, w, bad),
					encodeCase(entropyWithWindow(16, 0, i, 0), l))
			}
		}
		d := hex.EncodeToString(h.Sum(nil))
		digests[ref.FileNames[l]] = d
		if d != ref.Digests[ref.FileNames[l]] {
			c.Violate(fmt.Sprintf("digest:%d", l), fmt.Sprintf("%s list observed through the API hashes to %s, pinned canonical digest %s", ref.LangNames[l], d, ref.Digests[ref.FileNames[l]]),
				map[string]interface{}{"kind": "list-digest", "lang": l})
		}
	}
	c.SetExtra("observed_list_digests", digests)
	// (d) the lists after use: every entry point is exercised in every language, failing paths
	// included (unknown token, bad checksum, wrong count, bad entropy length, failing source), then
	// every (language, index) is emitted once more - a list sorted, trimmed or patched in place by some
	// path shows here
	for l := 0; l < ref.NLang; l++ {
		words := c.M.Words(bytes.Repeat([]byte{byte(0x31 + l)}, 32), l)
		for _, p := range []int{0, 7, 23} {
			for _, tok := range []string{"zz" + words[p], c.M.List[(l+1)%ref.NLang][1234], words[p] + "\u0301", strings.ToUpper(words[p]) + "x"} {
				t := append([]string(nil), words...)
				t[p] = tok
				c.validate(strings.Join(t, " "), Langs[l])
			}
		}
		c.validate(strings.Join(words[:23], " "), Langs[l])
		c.validate(strings.Join(append(append([]string(nil), words[:23]...), words[0]), " "), Langs[l])
		call(func() {
			_, _ = bip39.NewMnemonicByEntropy(make([]byte, 17), Langs[l])
			prev := bip39.VerifSwapRandSource(failingReader{})
			_, _ = bip39.NewMnemonic(12, Langs[l])
			bip39.VerifSwapRandSource(prev)
			_, _ = bip39.NewMnemonic(13, Langs[l])
			_ = bip39.MnemonicToSeed(strings.Join(words, ref.Sep(l)), "x")
			_ = Langs[l].String()
		})
	}
	for l := 0; l < ref.NLang; l++ {
		for i := 0; i < 2048; i++ {
			for _, p := range []int{0, 10} {
				e := entropyWithWindow(16, p, i, 0x55)
				var got string
				pn := call(func() { got, _ = bip39.NewMnemonicByEntropy(e, Langs[l]) })
				c.Eval(1)
				ws := strings.Split(got, ref.Sep(l))
				if pn != "" || p >= len(ws) || ws[p] != c.M.List[l][i] {
					c.Violate(fmt.Sprintf("list-after-use:%d:%d", l, i), fmt.Sprintf("after every entry point was exercised (failing paths included), %s index %d is emitted as %q, canonical word is %q (panic=%q)", ref.LangNames[l], i, got, c.M.List[l][i], pn),
						map[string]interface{}{"kind": "list-after-use", "lang": l, "index": i})
				}
			}
		}
	}
	c.AddScope("(language, index) emitted again after all entry points incl. failing paths were exercised", 10*2048, true, "")
	// (c) source text
	repo := os.Getenv("VERIF_REPO")
	if repo == "" {
		repo = "/repo"
	}
	src, err := parseWordlistSources(filepath.Join(repo, "internal", "wordlist"))
	var srcSkipped []string
	if err != nil {
		c.SetExtra("source_text_check", "skipped: internal/wordlist not present or not parseable: "+err.Error())
	} else {
		for l := 0; l < ref.NLang; l++ {
			got, ok := src[ref.LangNames[l]]
			c.Eval(1)
			if !ok {
				// the list is not kept as a string-literal slice in the source (embedded file, generated
				// at init, ...): nothing to compare textually; what the API emits is checked above
				srcSkipped = append(srcSkipped, ref.LangNames[l])
				continue
			}
			if len(got) != 2048 {
				c.Violate(fmt.Sprintf("source:%d", l), fmt.Sprintf("wordlist.%s has %d entries in the source", ref.LangNames[l], len(got)), map[string]interface{}{"kind": "source", "lang": l})
				continue
			}
			for i := range got {
				if got[i] != c.M.List[l][i] {
					c.Violate(fmt.Sprintf("source:%d:%d", l, i), fmt.Sprintf("source of wordlist.%s[%d] is %q, canonical %q", ref.LangNames[l], i, got[i], c.M.List[l][i]), map[string]interface{}{"kind": "source", "lang": l, "index": i})
					break
				}
			}
		}
	}
	if len(srcSkipped) > 0 {
		c.SetExtra("source_text_check_skipped_for", srcSkipped)
	}
	c.AddScope("source text of internal/wordlist/*.go vs golden", 10, true, "")
	c.mu.Lock()
	c.res.Distinct = observedPairs
	c.mu.Unlock()
	c.Sample(3, map[string]interface{}{"lang": "French", "index": 2047, "word": c.M.List[3][2047], "observed": observed[3][2047]})
	c.Sample(3, map[string]interface{}{"lang": "Korean", "index": 0, "word": c.M.List[6][0], "observed": observed[6][0]})
}

// parseWordlistSources returns variable name -> string list for every
// package-level `var X = []string{...}` found exactly once in dir.
func parseWordlistSources(dir string) (map[string][]string, error) {
	fset := token.NewFileSet()
	ents, err := os.ReadDir(dir)
	if err != nil {
		return nil, err
	}
	out := map[string][]string{}
	count := map[string]int{}
	for _, ent := range ents {
		name := ent.Name()
		if !strings.HasSuffix(name, ".go") || strings.HasSuffix(name, "_test.go") {
			continue
		}
		f, err := parser.ParseFile(fset, filepath.Join(dir, name), nil, parser.ParseComments)
		if err != nil {
			return nil, err
		}
		for _, d := range f.Decls {
			gd, ok := d.(*ast.GenDecl)
			if !ok || gd.Tok != token.VAR {
				continue
			}
			for _, sp := range gd.Specs {
				vs := sp.(*ast.ValueSpec)
				for k, id := range vs.Names {
					if k >= len(vs.Values) {
						continue
					}
					cl, ok := vs.Values[k].(*ast.CompositeLit)
					if !ok {
						continue
					}
					var list []string
					okAll := true
					for _, el := range cl.Elts {
						bl, ok := el.(*ast.BasicLit)
						if !ok || bl.Kind != token.STRING {
							okAll = false
							break
						}
						s, err := strconv.Unquote(bl.Value)
						if err != nil {
							okAll = false
							break
						}
						list = append(list, s)
					}
					if okAll {
						out[id.Name] = list
						count[id.Name]++
					}
				}
			}
		}
	}
	for n, k := range count {
		if k != 1 {
			delete(out, n)
		}
	}
	return out, nil
}
