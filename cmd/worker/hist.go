package main

import (
	"bytes"
	"crypto/rand"
	"crypto/sha256"
	"encoding/hex"
	"encoding/json"
	"fmt"
	"golang.org/x/text/unicode/norm"
	"io"
	"os"
	"reflect"
	"runtime/debug"
	"sort"
	"strconv"
	"strings"
	"verifshim/vsync"

	bip39 "github.com/islishude/bip39"

	"verif/internal/ref"
)

func init() {
	subcommands["hist"] = histMain
	subcommands["lists"] = listsMain
}

// listsMain prints every package-level []string variable of internal/wordlist as the linked
// package holds it (used by C17 when the committed lists are not written as string-literal slices).
func listsMain(args []string) int {
	out := map[string][]string{}
	for n, p := range bip39.VerifStateVars() {
		if l, ok := p.(*[]string); ok && strings.HasPrefix(n, "wordlist.") {
			out[strings.TrimPrefix(n, "wordlist.")] = append([]string{}, (*l)...)
		}
	}
	data, _ := json.Marshal(out)
	emitResult(data)
	return 0
}

// ---- canonical fingerprint of all package-level state -----------------------

type fpWalker struct {
	h       io.Writer
	visited map[uintptr]int
}

func (w *fpWalker) str(s string) {
	var b [12]byte
	x := strconv.AppendInt(b[:0], int64(len(s)), 10)
	x = append(x, ':')
	w.h.Write(x)
	io.WriteString(w.h, s)
	w.h.Write([]byte{';'})
}

func (w *fpWalker) walk(v reflect.Value, depth int) {
	if depth > 40 {
		w.str("depth")
		return
	}
	switch v.Kind() {
	case reflect.Invalid:
		w.str("invalid")
	case reflect.Bool:
		w.str(fmt.Sprint(v.Bool()))
	case reflect.Int, reflect.Int8, reflect.Int16, reflect.Int32, reflect.Int64:
		w.str(strconv.FormatInt(v.Int(), 10))
	case reflect.Uint, reflect.Uint8, reflect.Uint16, reflect.Uint32, reflect.Uint64:
		w.str(strconv.FormatUint(v.Uint(), 10))
	case reflect.Uintptr, reflect.UnsafePointer, reflect.Chan, reflect.Func:
		// addresses are not comparable across processes: record type and nil-ness only
		isNil := false
		if v.Kind() != reflect.Uintptr {
			isNil = v.IsNil()
		}
		w.str(fmt.Sprintf("%s nil=%v", v.Type(), isNil))
	case reflect.Float32, reflect.Float64:
		w.str(strconv.FormatFloat(v.Float(), 'g', -1, 64))
	case reflect.Complex64, reflect.Complex128:
		w.str(fmt.Sprint(v.Complex()))
	case reflect.String:
		w.str(v.String())
	case reflect.Slice:
		if v.IsNil() {
			w.str("nilslice")
			return
		}
		fallthrough
	case reflect.Array:
		w.str(fmt.Sprintf("[%d", v.Len()))
		if v.Type().Elem().Kind() == reflect.Uint8 {
			b := make([]byte, v.Len())
			for i := range b {
				b[i] = byte(v.Index(i).Uint())
			}
			w.str(hex.EncodeToString(b))
			return
		}
		for i := 0; i < v.Len(); i++ {
			w.walk(v.Index(i), depth+1)
		}
	case reflect.Map:
		if v.IsNil() {
			w.str("nilmap")
			return
		}
		if v.Type().Key().Kind() == reflect.String && v.Type().Elem().Kind() == reflect.Int64 {
			// fast path for the word -> index tables
			type si struct {
				k string
				v int64
			}
			items := make([]si, 0, v.Len())
			it := v.MapRange()
			for it.Next() {
				items = append(items, si{it.Key().String(), it.Value().Int()})
			}
			sort.Slice(items, func(i, j int) bool { return items[i].k < items[j].k })
			w.str("mapSI" + strconv.Itoa(len(items)))
			for _, x := range items {
				w.str(x.k)
				w.str(strconv.FormatInt(x.v, 10))
			}
			return
		}
		type kv struct{ k, v string }
		var items []kv
		it := v.MapRange()
		for it.Next() {
			var kb, vb bytes.Buffer
			(&fpWalker{&kb, w.visited}).walk(it.Key(), depth+1)
			(&fpWalker{&vb, w.visited}).walk(it.Value(), depth+1)
			items = append(items, kv{kb.String(), vb.String()})
		}
		sort.Slice(items, func(i, j int) bool { return items[i].k < items[j].k })
		w.str(fmt.Sprintf("map%d", len(items)))
		for _, it := range items {
			w.str(it.k)
			w.str(it.v)
		}
	case reflect.Struct:
		w.str("struct " + v.Type().String())
		shim := strings.HasPrefix(v.Type().PkgPath(), "verifshim/")
		for i := 0; i < v.NumField(); i++ {
			if shim {
				// scheduler bookkeeping of the sync shims is not package state: keep the logical fields only
				switch v.Type().Field(i).Name {
				case "real", "clock", "wclock", "rclock", "waiters", "owner", "running", "mu":
					continue
				}
			}
			w.str(v.Type().Field(i).Name)
			w.walk(v.Field(i), depth+1)
		}
	case reflect.Ptr:
		if v.IsNil() {
			w.str("nilptr")
			return
		}
		if id, ok := w.visited[v.Pointer()]; ok {
			w.str(fmt.Sprintf("backref%d", id))
			return
		}
		w.visited[v.Pointer()] = len(w.visited)
		w.str("ptr")
		w.walk(v.Elem(), depth+1)
	case reflect.Interface:
		if v.IsNil() {
			w.str("nilinterface")
			return
		}
		e := v.Elem()
		t := e.Type()
		w.str("dyn " + t.String())
		pt := t
		if pt.Kind() == reflect.Ptr {
			pt = pt.Elem()
		}
		if pt.PkgPath() == "crypto/rand" {
			return // the OS source's private bookkeeping is not package state
		}
		w.walk(e, depth+1)
	default:
		w.str("kind " + v.Kind().String())
	}
}

// fpExclude lists variables left out of the state key because their content
// was found to differ between identical replays (set by the explorer).
var fpExclude = map[string]bool{}

// fingerprint returns digests of (a) all package-level state and (b) the same
// without the lazily built tables and their guards (maps and sync.Once), plus
// one digest per variable.
func fingerprint() (full, rest string, per map[string]string) {
	vars := bip39.VerifStateVars()
	// state that the real sync.OnceFunc / OnceValue(s) would hide in closures (registered by the
	// shims in builds where the package's sync import is redirected)
	for i, h := range vsync.Hidden() {
		vars[fmt.Sprintf("sync.OnceValue#%d", i)] = h
	}
	names := make([]string, 0, len(vars))
	for n := range vars {
		names = append(names, n)
	}
	sort.Strings(names)
	hf, hr := sha256.New(), sha256.New()
	per = map[string]string{}
	for _, n := range names {
		v := reflect.ValueOf(vars[n]).Elem()
		var d [32]byte
		switch p := vars[n].(type) {
		case *[]string:
			// fast path (word lists): same canonical content, no reflection
			h := sha256.New()
			fmt.Fprintf(h, "%s;[]string;%d;%v;", n, len(*p), *p == nil)
			var lb [10]byte
			for _, x := range *p {
				h.Write(strconv.AppendInt(lb[:0], int64(len(x)), 10))
				h.Write([]byte{':'})
				io.WriteString(h, x)
			}
			h.Sum(d[:0])
		case *map[string]int64:
			h := sha256.New()
			fmt.Fprintf(h, "%s;map[string]int64;%d;%v;", n, len(*p), *p == nil)
			keys := make([]string, 0, len(*p))
			for k := range *p {
				keys = append(keys, k)
			}
			sort.Strings(keys)
			var lb [24]byte
			for _, k := range keys {
				h.Write(strconv.AppendInt(lb[:0], int64(len(k)), 10))
				h.Write([]byte{':'})
				io.WriteString(h, k)
				h.Write(strconv.AppendInt(lb[:0], (*p)[k], 10))
				h.Write([]byte{';'})
			}
			h.Sum(d[:0])
		default:
			var buf bytes.Buffer
			w := &fpWalker{&buf, map[uintptr]int{}}
			w.str(n)
			w.walk(v, 0)
			d = sha256.Sum256(buf.Bytes())
		}
		per[n] = hex.EncodeToString(d[:6])
		if fpExclude[n] {
			continue
		}
		hf.Write(d[:])
		t := v.Type().String()
		if v.Kind() != reflect.Map && t != "sync.Once" {
			hr.Write(d[:])
		}
	}
	return hex.EncodeToString(hf.Sum(nil)[:12]), hex.EncodeToString(hr.Sum(nil)[:12]), per
}

// lazyBits describes which lazily built tables exist (for reports).
func lazyBits() string {
	vars := bip39.VerifStateVars()
	var on []string
	for n, p := range vars {
		v := reflect.ValueOf(p).Elem()
		if v.Kind() == reflect.Map && !v.IsNil() {
			on = append(on, fmt.Sprintf("%s(%d)", n, v.Len()))
		}
	}
	sort.Strings(on)
	return strings.Join(on, ",")
}

// ---- operations ---------------------------------------------------------------

type retained struct {
	what string
	live func() []byte // current content
	copy []byte        // content when it was returned / passed in
}

type histRunner struct {
	m     *ref.Model
	keep  []retained
	reuse []byte // one caller-owned entropy buffer refilled in place by the GR operations
}

// keepErr retains an error value returned by the library: its text must still be
// the same when the history is over (a shared, reused error object shows here).
func (r *histRunner) keepErr(what string, err error) {
	if err == nil {
		return
	}
	r.keep = append(r.keep, retained{"text of the error returned by " + what, func() []byte { return []byte(err.Error()) }, []byte(err.Error())})
}

func langName(v int) string {
	if v >= 0 && v < ref.NLang {
		return ref.LangNames[v]
	}
	return fmt.Sprintf("Language(%d)", v)
}

// material returns the reference language whose words are used for Language value v.
func material(v int) int {
	if v >= 0 && v < ref.NLang {
		return v
	}
	return 2
}

func errString(err error) string {
	switch {
	case err == nil:
		return "nil"
	case errorsIs(err, bip39.ErrWordLen):
		return "ErrWordLen:" + err.Error()
	case errorsIs(err, bip39.ErrChecksumIncorrect):
		return "ErrChecksumIncorrect:" + err.Error()
	case errorsIs(err, bip39.ErrEntropyLen):
		return "ErrEntropyLen:" + err.Error()
	}
	return "other:" + err.Error()
}

func (r *histRunner) keepBytes(what string, b []byte) {
	r.keep = append(r.keep, retained{what, func() []byte { return b }, append([]byte(nil), b...)})
}

func (r *histRunner) keepString(what string, s string) {
	// the copy is taken now; the live view re-reads the same string header later
	r.keep = append(r.keep, retained{what, func() []byte { return []byte(s) }, []byte(strings.Clone(s))})
}

// exec runs one operation "KIND:langvalue" and returns its observable outcome.
func (r *histRunner) exec(op string) (outcome string) {
	parts := strings.Split(op, ":")
	kind := parts[0]
	v := 0
	if len(parts) > 1 {
		v, _ = strconv.Atoi(parts[1])
	}
	lg := bip39.Language(v)
	ml := material(v)
	ent24 := bytes.Repeat([]byte{byte(0x21 + 7*ml)}, 32)
	words := r.m.Words(ent24, ml)
	valid := strings.Join(words, " ")
	check := func(sentence string) string {
		err := bip39.CheckMnemonic(sentence, lg)
		r.keepErr(op, err)
		return errString(err)
	}
	pn := call(func() {
		switch kind {
		case "CV":
			outcome = check(valid)
		case "IV":
			outcome = fmt.Sprint(bip39.IsMnemonicValid(valid, lg))
		case "CB":
			w := append([]string(nil), words...)
			w[23] = r.m.List[ml][(r.m.Dict[ml][w[23]]+1)%2048]
			outcome = check(strings.Join(w, " "))
		case "CF":
			w := append([]string(nil), words...)
			w[5] = r.m.List[(ml+1)%ref.NLang][1999]
			outcome = check(strings.Join(w, " "))
		case "CG":
			// another unknown token at another position (a reused error object would describe this one)
			w := append([]string(nil), words...)
			w[17] = "zz" + r.m.List[ml][7]
			outcome = check(strings.Join(w, " "))
		case "CW":
			outcome = check(strings.Join(words[:13], " "))
		case "CZ":
			// valid 12-word sentence whose entropy has leading zero bytes
			e := make([]byte, 16)
			e[15] = byte(ml + 1)
			outcome = check(strings.Join(r.m.Words(e, ml), " "))
		case "GE":
			// the entropy is a window of a larger caller-owned buffer (spare capacity on
			// both sides): the whole buffer must be intact afterwards
			buf := bytes.Repeat([]byte{byte(0x90 + ml)}, 64)
			e := buf[8:24]
			e[0] = 0
			r.keepBytes("caller buffer around the entropy passed to "+op, buf)
			s, err := bip39.NewMnemonicByEntropy(e, lg)
			r.keepString("mnemonic returned by "+op, s)
			outcome = s + "|" + errString(err)
		case "CX":
			// the same string (a valid English sentence) under every language: a verdict memo keyed by
			// the string alone shows here
			en := strings.Join(r.m.Words(bytes.Repeat([]byte{0x21 + 7*2}, 32), 2), " ")
			outcome = check(en)
		case "SP":
			// the same mnemonic with a language-specific passphrase: a seed memo keyed by the mnemonic alone shows here
			en := strings.Join(r.m.Words(bytes.Repeat([]byte{0x21 + 7*2}, 32), 2), " ")
			out := bip39.MnemonicToSeed(en, "pw"+langName(v))
			r.keepBytes("seed returned by "+op, out)
			outcome = hex.EncodeToString(out)
		case "SW":
			// the same call as SD, but the caller wipes the returned slice afterwards (its own memory)
			out := bip39.MnemonicToSeed(valid, "pw"+langName(v))
			outcome = hex.EncodeToString(out)
			for i := range out {
				out[i] = 0
			}
		case "SA", "SB":
			// two argument pairs whose texts concatenate to the same string (with the salt prefix in
			// between): a memo keyed by a delimiter-less join confuses them
			mn, pw := "abandon ability"+"mnemonic", "pw"+langName(v)
			if kind == "SB" {
				mn, pw = "abandon ability", "mnemonic"+"pw"+langName(v)
			}
			outcome = hex.EncodeToString(bip39.MnemonicToSeed(mn, pw))
		case "SM":
			// a language-specific mnemonic with the same passphrase
			out := bip39.MnemonicToSeed(valid, "pw")
			r.keepBytes("seed returned by "+op, out)
			outcome = hex.EncodeToString(out)
		case "GX":
			// the same entropy under every language: an encoder memo keyed by the entropy alone shows here
			e := bytes.Repeat([]byte{0x42}, 16)
			s, err := bip39.NewMnemonicByEntropy(e, lg)
			r.keepString("mnemonic returned by "+op, s)
			outcome = s + "|" + errString(err)
		case "GR", "GS":
			// one caller-owned buffer, refilled in place with different contents by GR and GS
			if r.reuse == nil {
				r.reuse = make([]byte, 16)
			}
			fillb := byte(0x33 + ml)
			if kind == "GS" {
				fillb = byte(0xC4 + ml)
			}
			for i := range r.reuse {
				r.reuse[i] = fillb + byte(i)
			}
			s, err := bip39.NewMnemonicByEntropy(r.reuse, lg)
			outcome = s + "|" + errString(err)
		case "GL":
			// 32-byte entropy (a different size than GE, for cross-size interference)
			e := bytes.Repeat([]byte{byte(0x17 + 3*ml)}, 32)
			s, err := bip39.NewMnemonicByEntropy(e, lg)
			outcome = s + "|" + errString(err)
		case "GB":
			e := make([]byte, 17)
			r.keepBytes("entropy passed to "+op, e)
			s, err := bip39.NewMnemonicByEntropy(e, lg)
			outcome = s + "|" + errString(err)
		case "NW":
			src := &scriptedReader{script: []answer{{5, nil}, {0, nil}, {7, nil}}}
			prev := bip39.VerifSwapRandSource(src)
			s, err := bip39.NewMnemonic(12, lg)
			bip39.VerifSwapRandSource(prev)
			r.keepString("mnemonic returned by "+op, s)
			outcome = s + "|" + errString(err)
		case "NF":
			src := &scriptedReader{script: []answer{{9, nil}, {3, io.ErrUnexpectedEOF}}}
			prev := bip39.VerifSwapRandSource(src)
			s, err := bip39.NewMnemonic(24, lg)
			bip39.VerifSwapRandSource(prev)
			outcome = s + "|" + fmt.Sprint(err)
		case "NB":
			s, err := bip39.NewMnemonic(13, lg)
			outcome = s + "|" + errString(err)
		case "ND":
			// default source: the value is random, only its shape is an outcome
			n := 12
			if len(parts) > 2 {
				n, _ = strconv.Atoi(parts[2])
			}
			s, err := bip39.NewMnemonic(n, lg)
			sep := " "
			if strings.Contains(s, "\u3000") {
				sep = "\u3000"
			}
			nw := 0
			if s != "" {
				nw = len(strings.Split(s, sep))
			}
			outcome = fmt.Sprintf("words=%d|%s", nw, errString(err))
		case "CH":
			// the valid sentence with its FIRST word replaced by another list word: same tail, other
			// head (a memo keyed by part of the decoded value, e.g. its low 64 bits, shows here)
			w := append([]string(nil), words...)
			w[0] = r.m.List[ml][(r.m.Dict[ml][w[0]]+1000)%2048]
			outcome = check(strings.Join(w, " "))
		case "CT":
			// the last 12 words of the valid 24-word sentence on their own: same tail, other count
			outcome = check(strings.Join(words[12:], " "))
		case "CN":
			// the valid sentence in a non-canonical but NFKD-equivalent spelling: NFC, ASCII letters
			// full-width, U+3000 between the words (a normaliser chosen from earlier calls shows here)
			var b strings.Builder
			for _, r := range norm.NFC.String(strings.Join(words, "\u3000")) {
				if r >= 'a' && r <= 'z' {
					r += 0xFF41 - 'a'
				}
				b.WriteRune(r)
			}
			outcome = check(b.String())
		case "CK", "CJ", "GK", "SK":
			// indexed family: the k-th of many distinct arguments (fills caches, pools and counters keyed
			// by the argument); size and content derive from k
			k := 0
			if len(parts) > 2 {
				k, _ = strconv.Atoi(parts[2])
			}
			d := sha256.Sum256([]byte(fmt.Sprintf("indexed-%d-%d", ml, k)))
			e := append([]byte(nil), d[:16+4*(k%5)]...)
			wk := r.m.Words(e, ml)
			switch kind {
			case "CK":
				outcome = check(strings.Join(wk, " "))
			case "CJ":
				last := len(wk) - 1
				wk[last] = r.m.List[ml][(r.m.Dict[ml][wk[last]]+1)%2048]
				outcome = check(strings.Join(wk, " "))
			case "GK":
				s, err := bip39.NewMnemonicByEntropy(e, lg)
				outcome = s + "|" + errString(err)
			case "SK":
				outcome = hex.EncodeToString(bip39.MnemonicToSeed(strings.Join(wk, " "), "pw"))
			}
		case "SD":
			out := bip39.MnemonicToSeed(valid, "pw"+langName(v))
			r.keepBytes("seed returned by "+op, out)
			outcome = hex.EncodeToString(out)
		case "ST":
			outcome = lg.String()
		default:
			outcome = "unknown-op"
		}
	})
	if pn != "" {
		outcome = "PANIC:" + pn
	}
	return outcome
}

type histStep struct {
	Op      string            `json:"op"`
	Outcome string            `json:"outcome"`
	FP      string            `json:"fp"`
	Rest    string            `json:"rest"`
	Per     map[string]string `json:"per,omitempty"`
}

type histOut struct {
	InitialPer    map[string]string `json:"initial_per"`
	Initial       string            `json:"initial"`
	InitialRest   string            `json:"initial_rest"`
	Steps         []histStep        `json:"steps"`
	Lazy          string            `json:"lazy"`
	Intact        string            `json:"intact"` // "" = all retained buffers unchanged
	SourceDefault bool              `json:"source_default"`
	SourceType    string            `json:"source_type"`
	SourceAtStart bool              `json:"source_default_at_start"`
}

func sourceIsDefault() (bool, string) {
	probe := &countingReader{}
	prev := bip39.VerifSwapRandSource(probe)
	bip39.VerifSwapRandSource(prev)
	t := "nil"
	if prev != nil {
		t = reflect.TypeOf(prev).String()
		if rt := reflect.TypeOf(prev); rt.Kind() == reflect.Ptr {
			t = "*" + rt.Elem().PkgPath() + "." + rt.Elem().Name()
		}
	}
	return prev == rand.Reader, t
}

// histMain: worker -prop hist <op,op,...> ; prints one JSON document.
func histMain(args []string) int {
	verif := "/verif"
	if v := os.Getenv("VERIF_DIR"); v != "" {
		verif = v
	}
	arg0 := ""
	if len(args) > 0 {
		arg0 = args[0]
	}
	if strings.HasPrefix(arg0, "@") {
		// a long history handed over in a file
		data, err := os.ReadFile(arg0[1:])
		if err != nil {
			fmt.Fprintln(os.Stderr, err)
			return 2
		}
		arg0 = strings.TrimSpace(string(data))
		args = []string{arg0}
	}
	m, err := ref.LoadLangs(verif+"/golden", langsOfOps(arg0))
	if err != nil {
		fmt.Fprintln(os.Stderr, err)
		return 2
	}
	// GC timing is not an input the harness owns: switch it off for the (short) history so that
	// GC-sensitive state such as sync.Pool contents survives from one call to the next
	debug.SetGCPercent(-1)
	var out histOut
	out.SourceAtStart, _ = sourceIsDefault()
	for _, n := range strings.Split(os.Getenv("VERIF_FP_EXCLUDE"), ",") {
		if n != "" {
			fpExclude[n] = true
		}
	}
	out.Initial, out.InitialRest, out.InitialPer = fingerprint()
	r := &histRunner{m: m}
	var ops []string
	if len(args) > 0 && args[0] != "" {
		ops = strings.Split(args[0], ",")
	}
	fpFrom := 0
	if v := os.Getenv("VERIF_FP_FROM"); v != "" {
		fpFrom, _ = strconv.Atoi(v)
		if fpFrom < 0 {
			fpFrom = len(ops) + fpFrom
		}
	}
	for i, op := range ops {
		o := r.exec(op)
		full, rest := "", ""
		var per map[string]string
		if i >= fpFrom {
			full, rest, per = fingerprint()
		}
		out.Steps = append(out.Steps, histStep{op, o, full, rest, per})
	}
	for _, k := range r.keep {
		if !bytes.Equal(k.live(), k.copy) {
			out.Intact = fmt.Sprintf("%s changed afterwards: was %x, now %x", k.what, k.copy, k.live())
			break
		}
	}
	out.Lazy = lazyBits()
	out.SourceDefault, out.SourceType = sourceIsDefault()
	data, _ := json.Marshal(&out)
	emitResult(data)
	return 0
}

// langsOfOps returns the reference languages whose word material the given
// operation list needs (operation strings are KIND:langvalue[:arg], separated
// by ',' and '|').
func langsOfOps(spec string) map[int]bool {
	need := map[int]bool{}
	for _, op := range strings.FieldsFunc(spec, func(r rune) bool { return r == ',' || r == '|' }) {
		parts := strings.Split(op, ":")
		v := 0
		if len(parts) > 1 {
			v, _ = strconv.Atoi(parts[1])
		}
		ml := material(v)
		need[ml] = true
		if parts[0] == "CF" {
			need[(ml+1)%ref.NLang] = true
		}
		if parts[0] == "CX" || parts[0] == "SP" {
			need[2] = true
		}
	}
	return need
}
