package main

import (
	"bytes"
	"errors"
	"fmt"
	"strings"
	"sync"

	bip39 "github.com/islishude/bip39"

	"verif/internal/enum"
	"verif/internal/ref"
)

func init() {
	registry["C01"] = runC01
	registry["C02"] = runC02
	registry["C05"] = runC05
}

func encodeCase(e []byte, l int) map[string]interface{} {
	return map[string]interface{}{"kind": "encode", "entropy": hx(e), "lang": l}
}

// C01: NewMnemonicByEntropy == reference encoder, string equality.
func runC01(c *Ctx) {
	c.res.Rule = "entropy scopes E_win/E_ham/E_run/E_per/E_byte/E_blk/E_cs (DESIGN 2.4) x 10 languages; one evaluation = one NewMnemonicByEntropy call compared (string equality) with the bit-array reference encoder over golden lists; plus encodings issued right after validations of five kinds in the same goroutine; distinct_nontrivial = number of distinct entropies (all are valid-size inputs that exercise the full encoder) Cold-start phase: for each of the ten languages a fresh child process whose first library call is an encoding (resp. a validation) in that language, followed by all ten languages, compared with the reference (what depends on which language - or the zero value of Language - came first)."
	defer c.coldStartPhase("enc")
	c.Assume("golden lists are canonical (digests pinned, english digest independently known)", "Go stdlib crypto/sha256")
	c.entScopes(func(e []byte) {
		keep := append([]byte(nil), e...)
		for l := 0; l < ref.NLang; l++ {
			var got string
			var err error
			p := call(func() { got, err = bip39.NewMnemonicByEntropy(e, Langs[l]) })
			c.Eval(1)
			want := c.M.Encode(e, l)
			if p != "" || err != nil || got != want {
				c.Violate(fmt.Sprintf("encode:%s:%d", hx(keep), l),
					fmt.Sprintf("NewMnemonicByEntropy(%s,%s) = (%q, %v, panic=%q), reference %q", hx(keep), ref.LangNames[l], got, err, p, want),
					encodeCase(keep, l))
			}
		}
		if len(e) == 20 && e[0] == 0x55 {
			c.Sample(3, map[string]interface{}{"entropy": hx(e), "lang": "Japanese", "mnemonic": c.M.Encode(e, ref.Japanese)})
		}
	})
	// encoding right after validations of several kinds, sequentially in one goroutine: whatever a
	// validation leaves behind (pooled hash states, scratch integers) must not colour the next encoding
	var nAfter int64
	for l := 0; l < ref.NLang; l++ {
		for _, L := range enum.EntLens {
			z := make([]byte, L)
			z[L-1] = byte(l + 1)
			primers := []string{
				strings.Join(c.M.Words(z, l), " "),                                  // valid, leading zero bytes
				strings.Join(c.M.Words(bytes.Repeat([]byte{0xFF}, L), l), " "),      // valid, all ones
				"zz " + strings.Join(c.M.Words(z, l)[1:], " "),                      // unknown first word
				strings.Join(c.M.Words(z, l)[:L/4*3-1], " ") + " " + c.M.List[l][7], // most likely a bad checksum
				strings.Join(c.M.Words(z, l)[:5], " "),                              // wrong count
			}
			for _, e := range enum.Rep(L) {
				for _, pr := range primers {
					_ = bip39.CheckMnemonic(pr, Langs[l])
					got, err := bip39.NewMnemonicByEntropy(e, Langs[l])
					c.Eval(1)
					nAfter++
					if want := c.M.Encode(e, l); err != nil || got != want {
						c.Violate(fmt.Sprintf("encodeafter:%s:%s:%d", hs(pr), hx(e), l),
							fmt.Sprintf("right after CheckMnemonic(%q): NewMnemonicByEntropy(%s,%s) = (%q, %v), reference %q", pr, hx(e), ref.LangNames[l], got, err, want),
							map[string]interface{}{"kind": "encodeafter", "first": hs(pr), "entropy": hx(e), "lang": l})
					}
				}
			}
		}
	}
	c.AddScope("encodings right after 5 kinds of validation (sequential), 8 entropies x 5 sizes x 10 languages", nAfter, true, "")
	c.Sample(5, map[string]interface{}{"entropy": strings.Repeat("00", 16), "lang": "English", "mnemonic": c.M.Encode(make([]byte, 16), 2)})
}

// C02: every generated / reference-valid sentence validates.
func runC02(c *Ctx) {
	c.res.Rule = "entropy scopes x 10 languages; per (entropy, language): CheckMnemonic and IsMnemonicValid on (a) the implementation's own NewMnemonicByEntropy output and (b) the reference sentence joined by U+0020 and (c) by U+3000; plus NewMnemonic through a scripted source for 5 counts x 10 languages x 64 byte patterns; plus a valid sentence validated right after each of 10 kinds of failing validation (on the same and on a bit-complementary sentence); distinct_nontrivial = distinct entropies Cold-start phase: for each of the ten languages a fresh child process whose first library call is an encoding (resp. a validation) in that language, followed by all ten languages, compared with the reference (what depends on which language - or the zero value of Language - came first)."
	defer c.coldStartPhase("canon")
	c.Assume("golden lists are canonical", "only canonical single-separator sentences are demanded to validate")
	var leadZero [3]int64
	var lzMu sync.Mutex
	c.entScopes(func(e []byte) {
		lz := 0
		for lz < 2 && e[lz] == 0 {
			lz++
		}
		lzMu.Lock()
		leadZero[lz]++
		lzMu.Unlock()
		for l := 0; l < ref.NLang; l++ {
			words := c.M.Words(e, l)
			gen, gerr := bip39.NewMnemonicByEntropy(e, Langs[l])
			cands := []struct{ tag, s string }{
				{"generated", gen},
				{"ref-u0020", strings.Join(words, " ")},
			}
			if c.Thorough || l == ref.Japanese {
				cands = append(cands, struct{ tag, s string }{"ref-u3000", strings.Join(words, "\u3000")})
			}
			for _, cd := range cands {
				if cd.tag == "generated" && gerr != nil {
					continue // C01/C09's business
				}
				if cd.tag == "ref-u0020" && cd.s == gen {
					continue
				}
				var err error
				var okb bool
				p := call(func() { err = bip39.CheckMnemonic(cd.s, Langs[l]); okb = bip39.IsMnemonicValid(cd.s, Langs[l]) })
				c.Eval(1)
				if p != "" || err != nil || !okb {
					c.Violate(fmt.Sprintf("check:%s:%d", hs(cd.s), l),
						fmt.Sprintf("valid sentence (%s, entropy %s, %s) rejected: CheckMnemonic=%v IsMnemonicValid=%v panic=%q", cd.tag, hx(e), ref.LangNames[l], err, okb, p),
						map[string]interface{}{"kind": "check", "sentence": hs(cd.s), "lang": l, "expect": "valid", "entropy": hx(e)})
				}
			}
		}
	})
	c.SetExtra("entropies_by_leading_zero_bytes(0,1,>=2)", leadZero[:])
	// (b) NewMnemonic through a scripted source
	var n int64
	for _, cnt := range []int{12, 15, 18, 21, 24} {
		for l := 0; l < ref.NLang; l++ {
			for pat := 0; pat < 64; pat++ {
				buf := make([]byte, cnt+cnt/3)
				for i := range buf {
					switch {
					case pat < 8:
						if i < pat {
							buf[i] = 0
						} else {
							buf[i] = byte(0x11*pat + i)
						}
					case pat < 16:
						buf[i] = 0xFF
						if i >= pat-8 {
							buf[i] = byte(pat * i)
						}
					default:
						buf[i] = byte((pat*131 + i*29) ^ (i << 3))
					}
				}
				prev := bip39.VerifSwapRandSource(bytes.NewReader(buf))
				m, err := bip39.NewMnemonic(cnt, Langs[l])
				bip39.VerifSwapRandSource(prev)
				n++
				c.Eval(1)
				if err != nil {
					continue // C06's business
				}
				cerr := bip39.CheckMnemonic(m, Langs[l])
				if cerr != nil || !bip39.IsMnemonicValid(m, Langs[l]) {
					c.Violate(fmt.Sprintf("check:%s:%d", hs(m), l),
						fmt.Sprintf("NewMnemonic(%d,%s) over source bytes %s produced %q which CheckMnemonic rejects: %v", cnt, ref.LangNames[l], hx(buf), m, cerr),
						map[string]interface{}{"kind": "check", "sentence": hs(m), "lang": l, "expect": "valid", "entropy": hx(buf)})
				}
			}
		}
	}
	c.AddScope("NewMnemonic scripted source 5 counts x 10 languages x 64 patterns", n, true, "")
	// (c) a valid sentence right after a failing validation (sequentially, same goroutine): the
	// failure must leave nothing behind that makes the valid one fail
	var nAfter int64
	for l := 0; l < ref.NLang; l++ {
		for _, L := range enum.EntLens {
			for _, e := range enum.Rep(L)[:4] {
				words := c.M.Words(e, l)
				valid := strings.Join(words, " ")
				var fails []string
				for _, p := range []int{0, 1, len(words) / 2, len(words) - 1} {
					t := append([]string(nil), words...)
					t[p] = "zz" + t[p]
					fails = append(fails, strings.Join(t, " "))
				}
				// the same kinds of failure on a sentence with the complementary bits, so that
				// whatever a failed call leaves behind differs from what the valid one needs
				comp := make([]byte, len(e))
				for i := range e {
					comp[i] = ^e[i]
				}
				cw := c.M.Words(comp, l)
				for _, p := range []int{1, len(cw) / 2, len(cw) - 1} {
					t := append([]string(nil), cw...)
					t[p] = "zz" + t[p]
					fails = append(fails, strings.Join(t, " "))
				}
				t := append([]string(nil), words...)
				t[len(t)-1] = c.M.List[l][(c.M.Dict[l][t[len(t)-1]]+1)%2048]
				fails = append(fails, strings.Join(t, " "), strings.Join(words[:len(words)-1], " "), "")
				for _, f := range fails {
					_ = bip39.CheckMnemonic(f, Langs[l])
					err := bip39.CheckMnemonic(valid, Langs[l])
					c.Eval(2)
					nAfter++
					if err != nil {
						c.Violate(fmt.Sprintf("checkafter:%s:%s:%d", hs(f), hs(valid), l),
							fmt.Sprintf("valid sentence %q (%s) rejected (%v) right after the failing validation of %q", valid, ref.LangNames[l], err, f),
							map[string]interface{}{"kind": "checkafter", "first": hs(f), "sentence": hs(valid), "lang": l})
					}
				}
			}
		}
	}
	c.AddScope("valid sentence right after each of 10 kinds of failing validation (sequential)", nAfter, true, "")
	// (d) sentences made of the longest / shortest list words (where any size limit bites first)
	var nExt int64
	for l := 0; l < ref.NLang; l++ {
		for _, t := range extremeSentences(c.M, l) {
			for _, sep := range []string{" ", "\u3000"} {
				sent := strings.Join(t, sep)
				err := bip39.CheckMnemonic(sent, Langs[l])
				c.Eval(1)
				nExt++
				if err != nil || !bip39.IsMnemonicValid(sent, Langs[l]) {
					c.Violate(fmt.Sprintf("check:%s:%d", hs(sent), l),
						fmt.Sprintf("valid sentence of extreme-length words (%d bytes, %s) rejected: %v", len(sent), ref.LangNames[l], err),
						map[string]interface{}{"kind": "check", "sentence": hs(sent), "lang": l, "expect": "valid"})
				}
			}
		}
	}
	c.AddScope("sentences of the longest (bytes, code points) and shortest words, 5 counts x 10 languages x 2 separators", nExt, true, "")
	z := make([]byte, 16)
	c.Sample(3, map[string]interface{}{"sentence": c.M.Encode(z, 2), "lang": "English", "entropy": hx(z)})
	o := bytes.Repeat([]byte{0xFF}, 32)
	c.Sample(3, map[string]interface{}{"sentence": c.M.Encode(o, 5), "lang": "Japanese", "entropy": hx(o)})
}

// C05: decode_ref(NewMnemonicByEntropy(e)) == e; single-bit flips change the
// mnemonic; injectivity by counting.
func runC05(c *Ctx) {
	c.res.Rule = "entropy scopes x 10 languages; per (entropy, language) the implementation's mnemonic is split on its separator, decoded by the independent bit-array decoder over golden dictionaries and compared with the input bytes; per size 8 base entropies x every single-bit flip must change the mnemonic and decode to the flipped entropy (fresh slices, and again flipping in place in one reused buffer); injectivity: distinct mnemonic digests == distinct entropies per (size, language); distinct_nontrivial = distinct entropies"
	c.Assume("golden lists are canonical")
	type key struct{ si, l int }
	var mu sync.Mutex
	mn := map[key]*distinctSet{}
	for si := 0; si < 5; si++ {
		for l := 0; l < ref.NLang; l++ {
			mn[key{si, l}] = newDistinctSet()
		}
	}
	en := map[int]int64{}
	check := func(e []byte, l int) string {
		var got string
		var err error
		p := call(func() { got, err = bip39.NewMnemonicByEntropy(e, Langs[l]) })
		c.Eval(1)
		if p != "" || err != nil {
			c.Violate(fmt.Sprintf("decode:%s:%d", hx(e), l), fmt.Sprintf("NewMnemonicByEntropy(%s,%s) failed: err=%v panic=%q", hx(e), ref.LangNames[l], err, p), encodeCase(e, l))
			return ""
		}
		words := strings.Split(got, ref.Sep(l))
		if len(words) != len(e)/4*3 {
			c.Violate(fmt.Sprintf("decode:%s:%d", hx(e), l),
				fmt.Sprintf("mnemonic %q of entropy %s (%s) has %d words, want %d", got, hx(e), ref.LangNames[l], len(words), len(e)/4*3), encodeCase(e, l))
			return got
		}
		dec, _, bad := c.M.Decode(words, l)
		if bad >= 0 || !bytes.Equal(dec, e) {
			c.Violate(fmt.Sprintf("decode:%s:%d", hx(e), l),
				fmt.Sprintf("mnemonic %q of entropy %s (%s) decodes to %s (unknown word at %d)", got, hx(e), ref.LangNames[l], hx(dec), bad),
				encodeCase(e, l))
		}
		return got
	}
	c.entScopes(func(e []byte) {
		si := sizeIdx(len(e))
		for l := 0; l < ref.NLang; l++ {
			got := check(e, l)
			if !c.Thorough || l == 2 || l == 5 || l == 6 {
				// (injectivity already follows from decode(mnemonic) == entropy; the explicit count
				// is kept for all languages in the quick tier and for three in the thorough one,
				// where it would otherwise cost several GB)
				mn[key{si, l}].Add(got)
			}
		}
		mu.Lock()
		en[si]++
		mu.Unlock()
	})
	for k, s := range mn {
		if s.Len() != 0 && s.Len() != en[k.si] {
			c.Violate(fmt.Sprintf("injective:%d:%d", k.si, k.l),
				fmt.Sprintf("size %d %s: %d distinct entropies produced only %d distinct mnemonics", enum.EntLens[k.si], ref.LangNames[k.l], en[k.si], s.Len()),
				map[string]interface{}{"kind": "injectivity", "size": enum.EntLens[k.si], "lang": k.l})
		}
	}
	// single-bit flips on representative bases
	var flips int64
	for _, L := range enum.EntLens {
		for _, base := range enum.Rep(L) {
			for l := 0; l < ref.NLang; l++ {
				m0, _ := bip39.NewMnemonicByEntropy(base, Langs[l])
				for bit := 0; bit < 8*L; bit++ {
					f := append([]byte(nil), base...)
					f[bit/8] ^= 1 << uint(7-bit%8)
					m1 := check(f, l)
					flips++
					if m1 == m0 {
						c.Violate(fmt.Sprintf("flip:%s:%d:%d", hx(base), bit, l),
							fmt.Sprintf("flipping bit %d of %s does not change the %s mnemonic", bit, hx(base), ref.LangNames[l]),
							encodeCase(f, l))
					}
				}
			}
		}
	}
	c.AddScope("single-bit flips of 8 bases per size x 10 languages", flips, true, "")
	// the same flips done IN PLACE on one caller-owned buffer, sequentially: the encoder must look
	// at the bytes it is given now, not at what the same backing array held on the previous call
	var inplace int64
	for _, L := range enum.EntLens {
		buf := append([]byte(nil), enum.Rep(L)[5]...)
		for l := 0; l < ref.NLang; l++ {
			for bit := 0; bit < 8*L; bit++ {
				buf[bit/8] ^= 1 << uint(7-bit%8)
				got, err := bip39.NewMnemonicByEntropy(buf, Langs[l])
				c.Eval(1)
				inplace++
				if want := c.M.Encode(buf, l); err != nil || got != want {
					c.Violate(fmt.Sprintf("inplace:%s:%d:%d", hx(buf), bit, l),
						fmt.Sprintf("after flipping bit %d of a reused entropy buffer in place (now %s, %s): got %q, want %q", bit, hx(buf), ref.LangNames[l], got, want),
						map[string]interface{}{"kind": "encode-inplace", "entropy": hx(buf), "bit": bit, "lang": l})
				}
			}
		}
	}
	c.AddScope("in-place single-bit flips on one reused buffer per size x 10 languages (sequential)", inplace, true, "")
	e := enum.Rep(16)[5]
	c.Sample(3, map[string]interface{}{"entropy": hx(e), "lang": "Korean", "mnemonic": c.M.Encode(e, 6), "decoded": hx(e)})
}

var _ = errors.Is
