package main

import (
	"bufio"
	"bytes"
	"encoding/hex"
	"fmt"
	"os"
	"os/exec"
	"path/filepath"
	"strconv"
	"strings"

	"verif/internal/ref"
)

// pyNorm asks the independent Unicode oracle (CPython unicodedata) for the
// given normal form of every string. Strings must be valid UTF-8.
func (c *Ctx) pyNorm(form string, ss []string) []string {
	var in bytes.Buffer
	for _, s := range ss {
		fmt.Fprintf(&in, "%s %s\n", form, hex.EncodeToString([]byte(s)))
	}
	cmd := exec.Command("python3", filepath.Join(c.VerifDir, "py", "norm.py"), "norm")
	cmd.Stdin = &in
	cmd.Stderr = os.Stderr
	out, err := cmd.Output()
	if err != nil {
		c.Fatal("python oracle failed: %v", err)
	}
	lines := strings.Split(strings.TrimRight(string(out), "\n"), "\n")
	if len(ss) == 0 {
		return nil
	}
	if len(lines) != len(ss) {
		c.Fatal("python oracle returned %d lines for %d strings", len(lines), len(ss))
	}
	res := make([]string, len(ss))
	for i, l := range lines {
		l = strings.TrimSpace(l)
		if !strings.HasPrefix(l, "=") {
			c.Fatal("python oracle: bad line %q", l)
		}
		b, err := hex.DecodeString(l[1:])
		if err != nil {
			c.Fatal("python oracle: bad hex")
		}
		res[i] = string(b)
	}
	return res
}

// pyPBKDF2 cross-checks the hand-written PBKDF2 against OpenSSL (hashlib).
func (c *Ctx) pyPBKDF2(pw, salt [][]byte) [][]byte {
	var in bytes.Buffer
	for i := range pw {
		fmt.Fprintf(&in, "%s %s\n", hex.EncodeToString(pw[i]), hex.EncodeToString(salt[i]))
	}
	cmd := exec.Command("python3", filepath.Join(c.VerifDir, "py", "norm.py"), "pbkdf2")
	cmd.Stdin = &in
	cmd.Stderr = os.Stderr
	out, err := cmd.Output()
	if err != nil {
		c.Fatal("python pbkdf2 failed: %v", err)
	}
	var res [][]byte
	for _, l := range strings.Fields(string(out)) {
		b, _ := hex.DecodeString(l)
		res = append(res, b)
	}
	if len(res) != len(pw) {
		c.Fatal("python pbkdf2 returned %d lines for %d inputs", len(res), len(pw))
	}
	return res
}

// Variant is one alternative spelling of a golden word (same NFKD form).
type Variant struct {
	Index int
	Tag   string
	S     string
}

// loadVariants reads the spelling tables produced by py/norm.py at setup
// (regenerating them if they are missing).
func (c *Ctx) loadVariants(l int) []Variant {
	dir := filepath.Join(c.Aux, "uforms")
	if _, err := os.Stat(filepath.Join(dir, "variants.ok")); err != nil {
		cmd := exec.Command("python3", filepath.Join(c.VerifDir, "py", "norm.py"), "variants", filepath.Join(c.VerifDir, "golden"), dir)
		cmd.Stderr = os.Stderr
		if err := cmd.Run(); err != nil {
			c.Fatal("generating spelling variants failed: %v", err)
		}
	}
	f, err := os.Open(filepath.Join(dir, "variants_"+ref.FileNames[l]+".tsv"))
	if err != nil {
		c.Fatal("variants: %v", err)
	}
	defer f.Close()
	var out []Variant
	sc := bufio.NewScanner(f)
	for sc.Scan() {
		p := strings.Split(sc.Text(), "\t")
		if len(p) != 3 {
			c.Fatal("variants: bad line")
		}
		idx, _ := strconv.Atoi(p[0])
		b, err := hex.DecodeString(p[2])
		if err != nil {
			c.Fatal("variants: bad hex")
		}
		out = append(out, Variant{idx, p[1], string(b)})
	}
	return out
}

// Sigma is the Unicode probe alphabet of DESIGN 4.C04: strings chosen to hit
// each normalisation mechanism, plus NUL (a byte an implementation might use
// internally as a delimiter).
var Sigma = []string{
	"a", "\u0020", "\u3000", "\u00e9", "e\u0301", "\uff21", "\u334d", "\uff76\uff9e", "\u0323", "\u0307",
	"\uac00", "\ufb01", "\u1e9b\u0323", "\u2126", "\ufdfa", "\U0001f600", "\x00",
}

// sigmaStrings returns all concatenations of at most k letters of Sigma.
func sigmaStrings(k int) []string {
	out := []string{""}
	level := []string{""}
	for i := 0; i < k; i++ {
		var next []string
		for _, p := range level {
			for _, s := range Sigma {
				next = append(next, p+s)
			}
		}
		out = append(out, next...)
		level = next
	}
	return out
}

// Decomp is one assigned code point whose NFKD form differs from itself
// (table produced by the CPython oracle at setup).
type Decomp struct {
	S, NFKD, Kind string
}

func (c *Ctx) loadDecomp() []Decomp {
	dir := filepath.Join(c.Aux, "uforms")
	path := filepath.Join(dir, "decomp.tsv")
	if _, err := os.Stat(path); err != nil {
		cmd := exec.Command("python3", filepath.Join(c.VerifDir, "py", "norm.py"), "decomp", dir)
		cmd.Stderr = os.Stderr
		if err := cmd.Run(); err != nil {
			c.Fatal("generating the decomposition table failed: %v", err)
		}
	}
	f, err := os.Open(path)
	if err != nil {
		c.Fatal("decomp: %v", err)
	}
	defer f.Close()
	var out []Decomp
	sc := bufio.NewScanner(f)
	for sc.Scan() {
		p := strings.Split(sc.Text(), "\t")
		if len(p) != 3 {
			c.Fatal("decomp: bad line")
		}
		cp, err := strconv.ParseUint(p[0], 16, 32)
		b, err2 := hex.DecodeString(p[1])
		if err != nil || err2 != nil {
			c.Fatal("decomp: bad line")
		}
		out = append(out, Decomp{string(rune(cp)), string(b), p[2]})
	}
	return out
}

// decompSlice selects the code points used by a tier: all non-Hangul ones,
// and every Hangul syllable (thorough) or every 97th plus the block ends (quick).
func (c *Ctx) decompSlice() []Decomp {
	var out []Decomp
	h := 0
	for _, d := range c.loadDecomp() {
		if d.Kind == "hangul" {
			h++
			if !c.Thorough && h%97 != 1 && d.S != "\ud7a3" {
				continue
			}
		}
		out = append(out, d)
	}
	return out
}
