package main

import (
	"bytes"
	"fmt"
	"strings"
	"sync"

	bip39 "github.com/islishude/bip39"

	"verif/internal/ref"
)

func init() {
	registry["C03"] = runC03
	registry["C15"] = runC15
}

func checkCase(sc SCase, expect string) map[string]interface{} {
	return map[string]interface{}{"kind": "check", "sentence": hs(sc.S), "lang": sc.L, "expect": expect, "class": sc.Class}
}

// C03: accept => reference-valid (one direction), IsMnemonicValid <=> nil,
// and the accepted last-word set has exactly 2^(11-n/3) members.
func runC03(c *Ctx) {
	c.res.Rule = "per (language, word count, base sentence from the reference encoder over 8 representative entropies incl. 0/1/2 leading zero bytes): all 2048 last words, all (n-1)x2047 single substitutions (2 bases quick, 8 thorough; other bases 16 substitutes per position), all transpositions, every word count 0..27, foreign words at every position, token damage, separator damage; plus the same sentence validated under language A and then under B for all 90 ordered pairs (A-word sentences and sentences made only of words the two lists share); plus all byte strings of length <=3 over a 12-byte alphabet and (thorough) all token sequences of length 11..13 over 3 tokens. Oracle: implementation accepts => reference validator (golden dictionaries, checksum over ENT/8 bytes) accepts; accepted last words per prefix == 2^(11-n/3); IsMnemonicValid == (CheckMnemonic == nil). distinct_nontrivial = distinct (sentence, language) cases whose reference verdict is not 'valid' (i.e. cases where acceptance would be wrong) Cold-start phase: for each of the ten languages a fresh child process whose first library call is an encoding (resp. a validation) in that language, followed by all ten languages, compared with the reference (what depends on which language - or the zero value of Language - came first)."
	defer c.coldStartPhase("bad")
	c.Assume("golden lists are canonical", "NFKD form of the generated sentences is known by construction (golden words are NFKD-stable under CPython, separators map to U+0020)")
	var mu sync.Mutex
	accepted := map[string]int{}
	var distinct int64
	ds := newDistinctSet()
	classCount := map[string]int64{}
	c.forAllSentenceCases(func(sc SCase) {
		err, p := c.validate(sc.S, Langs[sc.L])
		v, _ := c.M.ValidateTokens(sc.Tokens, sc.L)
		mu.Lock()
		classCount[sc.Class]++
		if sc.Class == "last-word-sweep" {
			k := fmt.Sprintf("%d:%s", sc.L, strings.Join(sc.Tokens[:len(sc.Tokens)-1], " "))
			if _, ok := accepted[k]; !ok {
				accepted[k] = 0
			}
			if err == nil && p == "" {
				accepted[k]++
			}
		}
		mu.Unlock()
		if v != ref.VValid {
			ds.Add(sc.S, string(rune(sc.L)))
		}
		if p != "" {
			return // C14's business
		}
		if err == nil && v != ref.VValid {
			c.Violate(fmt.Sprintf("check:%s:%d", hs(sc.S), sc.L),
				fmt.Sprintf("accepted although the reference verdict is %q: %q (%s, %s)", v, sc.S, ref.LangNames[sc.L], sc.Class),
				checkCase(sc, "reject"))
		}
	})
	for k, n := range accepted {
		parts := strings.SplitN(k, ":", 2)
		words := len(strings.Split(parts[1], " ")) + 1
		want := 1 << uint(11-words/3)
		if n != want {
			c.Violate("sweep:"+hs(k),
				fmt.Sprintf("prefix %q (language %s): %d last words accepted, exactly %d expected", parts[1], parts[0], n, want),
				map[string]interface{}{"kind": "sweep", "prefix": hs(parts[1]), "lang": parts[0], "accepted": n, "expected": want})
		}
	}
	c.SetExtra("cases_by_operator", classCount)
	c.SetExtra("last_word_sweeps", len(accepted))
	c.AddScope("sentence mutation scopes (10 languages x 5 counts x 8 bases)", 0, true, "")

	// all byte strings of length <= 3 over a 12-byte alphabet (incl. ill-formed UTF-8) x 11 languages
	alpha := []byte{0x00, 0x20, 0x61, 0x7F, 0x80, 0xBF, 0xC3, 0xE3, 0xED, 0xF4, 0xFF, 0xA0}
	var nb int64
	var rec func(prefix []byte)
	rec = func(prefix []byte) {
		for l := 0; l <= ref.NLang; l++ {
			lg := bip39.Language(l)
			err, p := c.validate(string(prefix), lg)
			nb++
			if p == "" && err == nil {
				c.Violate(fmt.Sprintf("check:%s:%d", hx(prefix), l), fmt.Sprintf("byte string %x accepted under Language(%d)", prefix, l),
					map[string]interface{}{"kind": "check", "sentence": hx(prefix), "lang": 0, "langvalue": l, "expect": "reject"})
			}
		}
		if len(prefix) == 3 {
			return
		}
		for _, b := range alpha {
			rec(append(append([]byte(nil), prefix...), b))
		}
	}
	rec(nil)
	c.mu.Lock()
	distinct += nb
	c.mu.Unlock()
	c.AddScope("byte strings len<=3 over 12 bytes x 11 language values", nb, true, "")

	// the same string under two languages, sequentially (A first, then B): what was accepted
	// under A must not colour the verdict under B. Sentences of A's words, and sentences built
	// only from words that A and B share (valid under A by choice of the last word).
	var nCross int64
	for a := 0; a < ref.NLang; a++ {
		for b := 0; b < ref.NLang; b++ {
			if a == b {
				continue
			}
			var sents [][]string
			sents = append(sents, c.M.Words(bytes.Repeat([]byte{byte(0x3b + a)}, 16), a), c.M.Words(bytes.Repeat([]byte{byte(0x5d + b)}, 32), a))
			var common []string
			for _, w := range c.M.List[a] {
				if _, ok := c.M.Dict[b][w]; ok {
					common = append(common, w)
				}
			}
			if len(common) >= 12 {
				for start := 0; start < 3; start++ {
					t := make([]string, 12)
					for i := 0; i < 11; i++ {
						t[i] = common[(start*5+i*7)%len(common)]
					}
					for _, last := range common {
						t[11] = last
						if v, _ := c.M.ValidateTokens(t, a); v == ref.VValid {
							sents = append(sents, append([]string(nil), t...))
							break
						}
					}
				}
			}
			for _, t := range sents {
				if v, _ := c.M.ValidateTokens(t, a); v != ref.VValid {
					continue
				}
				sent := strings.Join(t, " ")
				_, _ = c.validate(sent, Langs[a])
				errB, p := c.validate(sent, Langs[b])
				nCross++
				vb, _ := c.M.ValidateTokens(t, b)
				if p == "" && errB == nil && vb != ref.VValid {
					c.Violate(fmt.Sprintf("checkcross:%s:%d:%d", hs(sent), a, b),
						fmt.Sprintf("%q accepted under %s right after it was validated under %s, although the reference verdict under %s is %q", sent, ref.LangNames[b], ref.LangNames[a], ref.LangNames[b], vb),
						map[string]interface{}{"kind": "checkcross", "sentence": hs(sent), "first": a, "lang": b})
				}
			}
		}
	}
	c.AddScope("same string under language A then B (90 ordered pairs; A-word sentences and shared-word sentences), sequential", nCross, true, "")

	if c.Thorough {
		// all token sequences of length 11..13 over {list[0], list[3], "zzz"} for English
		tok := []string{c.M.List[2][0], c.M.List[2][3], "zzz"}
		type job struct{ n, first int }
		var cnt int64
		var cmu sync.Mutex
		ParB(c.NCPU, 1, func(emit func(job)) {
			for n := 11; n <= 13; n++ {
				for f := 0; f < 27; f++ {
					emit(job{n, f})
				}
			}
		}, func(j job) {
			total := 1
			for i := 0; i < j.n-3; i++ {
				total *= 3
			}
			words := make([]string, j.n)
			var local, localDistinct int64
			for x := 0; x < total; x++ {
				y := x
				words[0], words[1], words[2] = tok[j.first%3], tok[j.first/3%3], tok[j.first/9]
				for i := 3; i < j.n; i++ {
					words[i] = tok[y%3]
					y /= 3
				}
				s := strings.Join(words, " ")
				err, p := c.validate(s, bip39.English)
				local++
				v, _ := c.M.ValidateTokens(words, 2)
				if v != ref.VValid {
					localDistinct++
				}
				if p == "" && err == nil && v != ref.VValid {
					c.Violate(fmt.Sprintf("check:%s:%d", hs(s), 2), fmt.Sprintf("accepted although reference verdict is %q: %q", v, s),
						map[string]interface{}{"kind": "check", "sentence": hs(s), "lang": 2, "expect": "reject"})
				}
			}
			cmu.Lock()
			cnt += local
			distinct += localDistinct
			cmu.Unlock()
		})
		c.AddScope("token sequences len 11..13 over 3 tokens (English)", cnt, true, "")
	}
	c.mu.Lock()
	c.res.Distinct = distinct + ds.Len()
	c.mu.Unlock()
	c.Sample(4, map[string]interface{}{"sentence": strings.Join(c.M.Words(make([]byte, 16), 2)[:11], " ") + " <each of 2048 words>", "lang": "English", "expected_accepted": 128})
	c.Sample(4, map[string]interface{}{"bytes": "c320ff", "lang": "all", "expected": "reject"})
}

// C15: the error identifies the kind of failure (canonical sentences only).
func runC15(c *Ctx) {
	c.res.Rule = "same sentence scopes as C03, canonical single-U+0020 sentences over golden words (plus the same sentences with one separator replaced by a code point that NFKD maps to U+0020); the reference classifies each case as valid / count-only / checksum-only / unknown-token and the implementation must return nil / errors.Is ErrWordLen / errors.Is ErrChecksumIncorrect / another non-nil error whose text contains an unknown token. distinct_nontrivial = distinct defective cases"
	c.Assume("golden lists are canonical")
	var mu sync.Mutex
	ds := newDistinctSet()
	byVerdict := map[string]int64{}
	c.forAllSentenceCases(func(sc SCase) {
		if !sc.Canon && !sc.Equiv {
			return
		}
		v, _ := c.M.ValidateTokens(sc.Tokens, sc.L)
		allKnown := true
		var unknown []string
		for _, t := range sc.Tokens {
			if _, ok := c.M.Dict[sc.L][t]; !ok {
				allKnown = false
				unknown = append(unknown, t)
			}
		}
		if v == ref.VCount && (!allKnown || len(sc.Tokens) == 0) {
			return // more than one defect (or the empty string): not constrained
		}
		err, p := c.validate(sc.S, Langs[sc.L])
		if p != "" {
			return
		}
		mu.Lock()
		byVerdict[v]++
		mu.Unlock()
		if v != ref.VValid {
			ds.Add(sc.S, string(rune(sc.L)))
		}
		bad := ""
		expect := ""
		switch v {
		case ref.VValid:
			expect = "valid"
			if err != nil {
				bad = fmt.Sprintf("valid sentence got error %v", err)
			}
		case ref.VCount:
			expect = "ErrWordLen"
			if err == nil || !errorsIs(err, bip39.ErrWordLen) {
				bad = fmt.Sprintf("count-only defect (%d words) got %v, want ErrWordLen", len(sc.Tokens), err)
			}
		case ref.VChecksum:
			expect = "ErrChecksumIncorrect"
			if err == nil || !errorsIs(err, bip39.ErrChecksumIncorrect) {
				bad = fmt.Sprintf("checksum-only defect got %v, want ErrChecksumIncorrect", err)
			}
		case ref.VUnknown:
			expect = "unknown-word"
			if err == nil || errorsIs(err, bip39.ErrWordLen) || errorsIs(err, bip39.ErrChecksumIncorrect) {
				bad = fmt.Sprintf("unknown token %q got %v, want a distinct non-nil error", unknown, err)
			} else {
				named := false
				for _, u := range unknown {
					if strings.Contains(err.Error(), u) {
						named = true
					}
				}
				if !named {
					bad = fmt.Sprintf("error %q names none of the unknown tokens %q", err.Error(), unknown)
				}
			}
		}
		if bad != "" {
			c.Violate(fmt.Sprintf("check:%s:%d", hs(sc.S), sc.L), fmt.Sprintf("%s: %q (%s, %s)", bad, sc.S, ref.LangNames[sc.L], sc.Class), checkCase(sc, expect))
		}
	})
	c.SetExtra("cases_by_reference_verdict", byVerdict)
	c.AddScope("sentence mutation scopes (10 languages x 5 counts x 8 bases), canonical cases", 0, true, "")
	c.mu.Lock()
	c.res.Distinct = ds.Len()
	c.mu.Unlock()
	w := c.M.Words(make([]byte, 16), 2)
	c.Sample(4, map[string]interface{}{"sentence": strings.Join(w[:11], " "), "lang": "English", "expected": "ErrWordLen"})
	c.Sample(4, map[string]interface{}{"sentence": strings.Join(append(append([]string{}, w[:11]...), "zoo"), " "), "lang": "English", "expected": "ErrChecksumIncorrect"})
	c.Sample(4, map[string]interface{}{"sentence": strings.Join(append(append([]string{}, w[:11]...), "Zoo"), " "), "lang": "English", "expected": "error naming `Zoo`"})
}
