// Command worker links the real github.com/islishude/bip39 (built from /repo's
// current working tree with -tags verif) together with the reference model and
// runs one bounded-exhaustive exploration, writing a JSON result for vcheck.
package main

import (
	"encoding/hex"
	"encoding/json"
	"flag"
	"fmt"
	"os"
	"os/exec"
	"runtime"
	"sort"
	"strconv"
	"sync"
	"sync/atomic"
	"syscall"
	"time"

	bip39 "github.com/islishude/bip39"

	"verif/internal/ref"
)

// Langs maps reference language numbers to the package's declared constants.
var Langs = [ref.NLang]bip39.Language{
	bip39.ChineseSimplified, bip39.ChineseTraditional, bip39.English, bip39.French, bip39.Italian,
	bip39.Japanese, bip39.Korean, bip39.Spanish, bip39.Czech, bip39.Portuguese,
}

// Violation is one failing case.
type Violation struct {
	Key  string                 `json:"key"`
	What string                 `json:"what"`
	Case map[string]interface{} `json:"case"`
}

// Known is one entry of known_findings.json.
type Known struct {
	Property string `json:"property"`
	Status   string `json:"status"` // "known" | "fixed"
	Key      string `json:"key,omitempty"`
	Commit   string `json:"commit,omitempty"`
	What     string `json:"what"`
}

// Result is what the worker hands back to vcheck.
type Result struct {
	Property       string                 `json:"property"`
	Tier           string                 `json:"tier"`
	Evaluations    int64                  `json:"evaluations"`
	Distinct       int64                  `json:"distinct_nontrivial"`
	Rule           string                 `json:"rule"`
	Samples        []interface{}          `json:"samples"`
	Extra          map[string]interface{} `json:"extra"`
	Scopes         []Scope                `json:"scopes"`
	Violations     []Violation            `json:"violations"`
	ViolationCount int64                  `json:"violation_count"`
	KnownHits      map[string]int64       `json:"known_hits"`
	Exhaustive     bool                   `json:"exhaustive"`
	States         int64                  `json:"states,omitempty"`
	Transitions    int64                  `json:"transitions,omitempty"`
	Assumptions    []string               `json:"assumptions"`
	MachineryError string                 `json:"machinery_error,omitempty"`
	WallS          float64                `json:"wall_s"`
}

// Scope records one enumerated sub-space and whether it completed.
type Scope struct {
	Name     string `json:"name"`
	Size     int64  `json:"size"`
	Complete bool   `json:"complete"`
	Note     string `json:"note,omitempty"`
}

const maxKept = 40

// Ctx is the per-run context shared by all checks.
type Ctx struct {
	Prop     string
	Tier     string
	Thorough bool
	M        *ref.Model
	Aux      string // directory with generated oracle tables (build/)
	VerifDir string
	Seed     int64
	NCPU     int
	Shard    int // this process handles jobs with index % NShard == Shard
	NShard   int

	evals   int64
	mu      sync.Mutex
	res     Result
	known   map[string]bool
	samples int
}

func (c *Ctx) Eval(n int64) { atomic.AddInt64(&c.evals, n) }

// Violate records a failing case unless it is listed as a known finding.
func (c *Ctx) Violate(key, what string, cs map[string]interface{}) {
	c.mu.Lock()
	defer c.mu.Unlock()
	if c.known[key] {
		c.res.KnownHits[key]++
		return
	}
	c.res.ViolationCount++
	if len(c.res.Violations) < maxKept {
		for _, v := range c.res.Violations {
			if v.Key == key {
				return
			}
		}
		c.res.Violations = append(c.res.Violations, Violation{Key: key, What: what, Case: cs})
	}
}

// Sample keeps a few explored cases for the evidence file.
func (c *Ctx) Sample(max int, s interface{}) {
	c.mu.Lock()
	defer c.mu.Unlock()
	if len(c.res.Samples) < max {
		c.res.Samples = append(c.res.Samples, s)
	}
}

func (c *Ctx) AddScope(name string, size int64, complete bool, note string) {
	c.mu.Lock()
	defer c.mu.Unlock()
	c.res.Scopes = append(c.res.Scopes, Scope{name, size, complete, note})
	if !complete {
		c.res.Exhaustive = false
	}
}

func (c *Ctx) SetExtra(k string, v interface{}) {
	c.mu.Lock()
	defer c.mu.Unlock()
	c.res.Extra[k] = v
}

func (c *Ctx) Assume(s ...string) {
	c.mu.Lock()
	defer c.mu.Unlock()
	c.res.Assumptions = append(c.res.Assumptions, s...)
}

// Fatal reports a failure of the machinery itself (never a property verdict).
func (c *Ctx) Fatal(format string, a ...interface{}) {
	c.mu.Lock()
	c.res.MachineryError = fmt.Sprintf(format, a...)
	c.mu.Unlock()
	panic(machineryPanic{})
}

type machineryPanic struct{}

// Par runs handle over everything produced by gen on all cores.
func Par[T any](ncpu int, gen func(emit func(T)), handle func(T)) {
	ParB(ncpu, 128, gen, handle)
}

// ParB is Par with an explicit batch size.
func ParB[T any](ncpu, batch int, gen func(emit func(T)), handle func(T)) {
	ch := make(chan []T, 4*ncpu)
	var wg sync.WaitGroup
	for i := 0; i < ncpu; i++ {
		wg.Add(1)
		go func() {
			defer wg.Done()
			for b := range ch {
				for _, x := range b {
					handle(x)
				}
			}
		}()
	}
	cur := make([]T, 0, batch)
	gen(func(x T) {
		cur = append(cur, x)
		if len(cur) == batch {
			ch <- cur
			cur = make([]T, 0, batch)
		}
	})
	if len(cur) > 0 {
		ch <- cur
	}
	close(ch)
	wg.Wait()
}

// call runs f and converts a panic into a string (for "no panic" oracles).
func call(f func()) (panicked string) {
	defer func() {
		if r := recover(); r != nil {
			panicked = fmt.Sprint(r)
		}
	}()
	f()
	return ""
}

func hx(b []byte) string { return hex.EncodeToString(b) }
func hs(s string) string { return hex.EncodeToString([]byte(s)) }

var registry = map[string]func(*Ctx){}

func main() {
	prop := flag.String("prop", "", "property id / sub-command")
	tier := flag.String("tier", "quick", "quick|thorough")
	verif := flag.String("verif", "/verif", "verif directory")
	out := flag.String("out", "", "result file")
	seed := flag.Int64("seed", 0, "VERIF_SEED")
	ncpu := flag.Int("ncpu", runtime.NumCPU(), "parallelism")
	shard := flag.Int("shard", 0, "shard index (process-level sharding)")
	nshard := flag.Int("nshard", 0, "number of shards; 0 = decide automatically")
	flag.Parse()
	// a size computation gone wrong in the code under test must fail fast instead of eating the
	// machine: cap the address space of every worker process (the sandbox itself has no limit)
	gb := uint64(48)
	if v, err := strconv.ParseUint(os.Getenv("VERIF_AS_LIMIT_GB"), 10, 64); err == nil && v > 0 {
		gb = v
	}
	lim := syscall.Rlimit{Cur: gb << 30, Max: gb << 30}
	_ = syscall.Setrlimit(syscall.RLIMIT_AS, &lim)

	if h, ok := subcommands[*prop]; ok {
		os.Exit(h(flag.Args()))
	}

	if sharded[*prop] && *nshard == 0 && *ncpu > 1 {
		os.Exit(runSharded(*prop, *tier, *verif, *out, *seed, *ncpu))
	}
	if *nshard == 0 {
		*nshard = 1
	}
	c := &Ctx{Prop: *prop, Tier: *tier, Thorough: *tier == "thorough", Aux: *verif + "/build", VerifDir: *verif, Seed: *seed, NCPU: *ncpu, Shard: *shard, NShard: *nshard}
	c.res = Result{Property: *prop, Tier: *tier, Extra: map[string]interface{}{}, KnownHits: map[string]int64{}, Exhaustive: true, Samples: []interface{}{}, Violations: []Violation{}}
	c.known = map[string]bool{}
	if data, err := os.ReadFile(*verif + "/known_findings.json"); err == nil {
		var kf struct {
			Findings []Known `json:"findings"`
		}
		if err := json.Unmarshal(data, &kf); err != nil {
			fmt.Fprintln(os.Stderr, "known_findings.json:", err)
			os.Exit(2)
		}
		for _, k := range kf.Findings {
			if k.Property == *prop && k.Status == "known" && k.Key != "" {
				c.known[k.Key] = true
			}
		}
	}
	m, err := ref.Load(*verif + "/golden")
	if err != nil {
		fmt.Fprintln(os.Stderr, "reference model:", err)
		os.Exit(2)
	}
	c.M = m
	if err := m.SelfTest(); err != nil {
		fmt.Fprintln(os.Stderr, "reference model self-test failed:", err)
		os.Exit(2)
	}
	f, ok := registry[*prop]
	if !ok {
		fmt.Fprintln(os.Stderr, "unknown property", *prop)
		os.Exit(2)
	}
	t0 := time.Now()
	// The in-process checks evaluate many inputs in parallel; they are about input/output
	// behaviour, not about concurrency (C12's business). Build every lazily built table once,
	// sequentially, before any parallel phase, so that first-use construction never overlaps.
	for l := 0; l < ref.NLang; l++ {
		l := l
		_ = call(func() {
			_ = bip39.CheckMnemonic(m.Encode(make([]byte, 16), l), Langs[l])
			_, _ = bip39.NewMnemonicByEntropy(make([]byte, 16), Langs[l])
		})
	}
	func() {
		defer func() {
			if r := recover(); r != nil {
				if _, ok := r.(machineryPanic); ok {
					return
				}
				panic(r)
			}
		}()
		f(c)
	}()
	c.res.Evaluations = atomic.LoadInt64(&c.evals)
	c.res.WallS = time.Since(t0).Seconds()
	sort.Slice(c.res.Violations, func(i, j int) bool {
		a, b := c.res.Violations[i].Key, c.res.Violations[j].Key
		if len(a) != len(b) {
			return len(a) < len(b) // shortest input first: the easiest counterexample to read
		}
		return a < b
	})
	data, _ := json.MarshalIndent(&c.res, "", " ")
	if *out == "" {
		os.Stdout.Write(data)
	} else if err := os.WriteFile(*out, data, 0644); err != nil {
		fmt.Fprintln(os.Stderr, err)
		os.Exit(2)
	}
	if c.res.MachineryError != "" {
		fmt.Fprintln(os.Stderr, "machinery error:", c.res.MachineryError)
		os.Exit(2)
	}
}

// subcommands are process-level entry points used by the history and
// schedule explorers (one fresh process per execution).
var subcommands = map[string]func(args []string) int{}

// sharded lists checks whose state (the process-global randomness source)
// forbids in-process parallelism: they are sharded over child processes.
var sharded = map[string]bool{}

func runSharded(prop, tier, verif, out string, seed int64, n int) int {
	t0 := time.Now()
	dir, err := os.MkdirTemp(os.Getenv("VERIF_SCRATCH_DIR"), "shards-")
	if err != nil {
		fmt.Fprintln(os.Stderr, err)
		return 2
	}
	defer os.RemoveAll(dir)
	var wg sync.WaitGroup
	fail := make([]error, n)
	for i := 0; i < n; i++ {
		wg.Add(1)
		go func(i int) {
			defer wg.Done()
			cmd := exec.Command(os.Args[0], "-prop", prop, "-tier", tier, "-verif", verif, "-seed", fmt.Sprint(seed), "-ncpu", "1",
				"-shard", fmt.Sprint(i), "-nshard", fmt.Sprint(n), "-out", fmt.Sprintf("%s/%d.json", dir, i))
			cmd.Stderr = os.Stderr
			cmd.Env = append(os.Environ(), "GOMAXPROCS=2")
			fail[i] = cmd.Run()
		}(i)
	}
	wg.Wait()
	var merged Result
	for i := 0; i < n; i++ {
		data, err := os.ReadFile(fmt.Sprintf("%s/%d.json", dir, i))
		if err != nil {
			fmt.Fprintf(os.Stderr, "shard %d: %v %v\n", i, fail[i], err)
			return 2
		}
		var r Result
		if err := json.Unmarshal(data, &r); err != nil {
			fmt.Fprintln(os.Stderr, err)
			return 2
		}
		if i == 0 {
			merged = r
			continue
		}
		merged.Evaluations += r.Evaluations
		merged.Distinct += r.Distinct
		merged.ViolationCount += r.ViolationCount
		merged.Exhaustive = merged.Exhaustive && r.Exhaustive
		if merged.MachineryError == "" {
			merged.MachineryError = r.MachineryError
		}
		for _, v := range r.Violations {
			if len(merged.Violations) < maxKept {
				merged.Violations = append(merged.Violations, v)
			}
		}
		for k, v := range r.KnownHits {
			merged.KnownHits[k] += v
		}
		for _, s := range r.Samples {
			if len(merged.Samples) < 8 {
				merged.Samples = append(merged.Samples, s)
			}
		}
		for k, v := range r.Extra {
			mv, ok1 := merged.Extra[k].(map[string]interface{})
			rv, ok2 := v.(map[string]interface{})
			if ok1 && ok2 {
				for kk, x := range rv {
					a, _ := mv[kk].(float64)
					b, _ := x.(float64)
					mv[kk] = a + b
				}
			} else if _, ok := merged.Extra[k]; !ok {
				merged.Extra[k] = v
			}
		}
	}
	merged.Extra["process_shards"] = n
	merged.WallS = time.Since(t0).Seconds()
	sort.Slice(merged.Violations, func(i, j int) bool { return merged.Violations[i].Key < merged.Violations[j].Key })
	data, _ := json.MarshalIndent(&merged, "", " ")
	if out == "" {
		os.Stdout.Write(data)
	} else if err := os.WriteFile(out, data, 0644); err != nil {
		fmt.Fprintln(os.Stderr, err)
		return 2
	}
	if merged.MachineryError != "" {
		return 2
	}
	return 0
}

// emitResult prints a sub-command's JSON result on a line of its own behind a marker, so that
// anything the code under test may itself print to standard output cannot corrupt it.
func emitResult(data []byte) {
	os.Stdout.WriteString("\nVERIF-RESULT-7f3a9c ")
	os.Stdout.Write(data)
	os.Stdout.WriteString("\n")
}
