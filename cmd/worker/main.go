// Command worker links the real github.com/islishude/bip39 (built from /repo's
// current working tree with -tags verif) together with the reference model and
// runs one bounded-exhaustive exploration, writing a JSON result for vcheck.
package main

import (
	"encoding/hex"
	"encoding/json"
	"flag"
	"fmt"
	"os"
	"runtime"
	"sort"
	"sync"
	"sync/atomic"
	"time"

	bip39 "github.com/islishude/bip39"

	"verif/internal/ref"
)

// Langs maps reference language numbers to the package's declared constants.
var Langs = [ref.NLang]bip39.Language{
	bip39.ChineseSimplified, bip39.ChineseTraditional, bip39.English, bip39.French, bip39.Italian,
	bip39.Japanese, bip39.Korean, bip39.Spanish, bip39.Czech, bip39.Portuguese,
}

// Violation is one failing case.
type Violation struct {
	Key  string                 `json:"key"`
	What string                 `json:"what"`
	Case map[string]interface{} `json:"case"`
}

// Known is one entry of known_findings.json.
type Known struct {
	Property string `json:"property"`
	Status   string `json:"status"` // "known" | "fixed"
	Key      string `json:"key,omitempty"`
	Commit   string `json:"commit,omitempty"`
	What     string `json:"what"`
}

// Result is what the worker hands back to vcheck.
type Result struct {
	Property       string                 `json:"property"`
	Tier           string                 `json:"tier"`
	Evaluations    int64                  `json:"evaluations"`
	Distinct       int64                  `json:"distinct_nontrivial"`
	Rule           string                 `json:"rule"`
	Samples        []interface{}          `json:"samples"`
	Extra          map[string]interface{} `json:"extra"`
	Scopes         []Scope                `json:"scopes"`
	Violations     []Violation            `json:"violations"`
	ViolationCount int64                  `json:"violation_count"`
	KnownHits      map[string]int64       `json:"known_hits"`
	Exhaustive     bool                   `json:"exhaustive"`
	States         int64                  `json:"states,omitempty"`
	Transitions    int64                  `json:"transitions,omitempty"`
	Assumptions    []string               `json:"assumptions"`
	MachineryError string                 `json:"machinery_error,omitempty"`
	WallS          float64                `json:"wall_s"`
}

// Scope records one enumerated sub-space and whether it completed.
type Scope struct {
	Name     string `json:"name"`
	Size     int64  `json:"size"`
	Complete bool   `json:"complete"`
	Note     string `json:"note,omitempty"`
}

const maxKept = 40

// Ctx is the per-run context shared by all checks.
type Ctx struct {
	Prop     string
	Tier     string
	Thorough bool
	M        *ref.Model
	Aux      string // directory with generated oracle tables (build/)
	VerifDir string
	Seed     int64
	NCPU     int

	evals   int64
	mu      sync.Mutex
	res     Result
	known   map[string]bool
	samples int
}

func (c *Ctx) Eval(n int64) { atomic.AddInt64(&c.evals, n) }

// Violate records a failing case unless it is listed as a known finding.
func (c *Ctx) Violate(key, what string, cs map[string]interface{}) {
	c.mu.Lock()
	defer c.mu.Unlock()
	if c.known[key] {
		c.res.KnownHits[key]++
		return
	}
	c.res.ViolationCount++
	if len(c.res.Violations) < maxKept {
		for _, v := range c.res.Violations {
			if v.Key == key {
				return
			}
		}
		c.res.Violations = append(c.res.Violations, Violation{Key: key, What: what, Case: cs})
	}
}

// Sample keeps a few explored cases for the evidence file.
func (c *Ctx) Sample(max int, s interface{}) {
	c.mu.Lock()
	defer c.mu.Unlock()
	if len(c.res.Samples) < max {
		c.res.Samples = append(c.res.Samples, s)
	}
}

func (c *Ctx) AddScope(name string, size int64, complete bool, note string) {
	c.mu.Lock()
	defer c.mu.Unlock()
	c.res.Scopes = append(c.res.Scopes, Scope{name, size, complete, note})
	if !complete {
		c.res.Exhaustive = false
	}
}

func (c *Ctx) SetExtra(k string, v interface{}) {
	c.mu.Lock()
	defer c.mu.Unlock()
	c.res.Extra[k] = v
}

func (c *Ctx) Assume(s ...string) {
	c.mu.Lock()
	defer c.mu.Unlock()
	c.res.Assumptions = append(c.res.Assumptions, s...)
}

// Fatal reports a failure of the machinery itself (never a property verdict).
func (c *Ctx) Fatal(format string, a ...interface{}) {
	c.mu.Lock()
	c.res.MachineryError = fmt.Sprintf(format, a...)
	c.mu.Unlock()
	panic(machineryPanic{})
}

type machineryPanic struct{}

// Par runs handle over everything produced by gen on all cores.
func Par[T any](ncpu int, gen func(emit func(T)), handle func(T)) {
	ParB(ncpu, 128, gen, handle)
}

// ParB is Par with an explicit batch size.
func ParB[T any](ncpu, batch int, gen func(emit func(T)), handle func(T)) {
	ch := make(chan []T, 4*ncpu)
	var wg sync.WaitGroup
	for i := 0; i < ncpu; i++ {
		wg.Add(1)
		go func() {
			defer wg.Done()
			for b := range ch {
				for _, x := range b {
					handle(x)
				}
			}
		}()
	}
	cur := make([]T, 0, batch)
	gen(func(x T) {
		cur = append(cur, x)
		if len(cur) == batch {
			ch <- cur
			cur = make([]T, 0, batch)
		}
	})
	if len(cur) > 0 {
		ch <- cur
	}
	close(ch)
	wg.Wait()
}

// call runs f and converts a panic into a string (for "no panic" oracles).
func call(f func()) (panicked string) {
	defer func() {
		if r := recover(); r != nil {
			panicked = fmt.Sprint(r)
		}
	}()
	f()
	return ""
}

func hx(b []byte) string { return hex.EncodeToString(b) }
func hs(s string) string { return hex.EncodeToString([]byte(s)) }

var registry = map[string]func(*Ctx){}

func main() {
	prop := flag.String("prop", "", "property id / sub-command")
	tier := flag.String("tier", "quick", "quick|thorough")
	verif := flag.String("verif", "/verif", "verif directory")
	out := flag.String("out", "", "result file")
	seed := flag.Int64("seed", 0, "VERIF_SEED")
	ncpu := flag.Int("ncpu", runtime.NumCPU(), "parallelism")
	flag.Parse()

	if h, ok := subcommands[*prop]; ok {
		os.Exit(h(flag.Args()))
	}

	c := &Ctx{Prop: *prop, Tier: *tier, Thorough: *tier == "thorough", Aux: *verif + "/build", VerifDir: *verif, Seed: *seed, NCPU: *ncpu}
	c.res = Result{Property: *prop, Tier: *tier, Extra: map[string]interface{}{}, KnownHits: map[string]int64{}, Exhaustive: true, Samples: []interface{}{}, Violations: []Violation{}}
	c.known = map[string]bool{}
	if data, err := os.ReadFile(*verif + "/known_findings.json"); err == nil {
		var kf struct {
			Findings []Known `json:"findings"`
		}
		if err := json.Unmarshal(data, &kf); err != nil {
			fmt.Fprintln(os.Stderr, "known_findings.json:", err)
			os.Exit(2)
		}
		for _, k := range kf.Findings {
			if k.Property == *prop && k.Status == "known" && k.Key != "" {
				c.known[k.Key] = true
			}
		}
	}
	m, err := ref.Load(*verif + "/golden")
	if err != nil {
		fmt.Fprintln(os.Stderr, "reference model:", err)
		os.Exit(2)
	}
	c.M = m
	f, ok := registry[*prop]
	if !ok {
		fmt.Fprintln(os.Stderr, "unknown property", *prop)
		os.Exit(2)
	}
	t0 := time.Now()
	func() {
		defer func() {
			if r := recover(); r != nil {
				if _, ok := r.(machineryPanic); ok {
					return
				}
				panic(r)
			}
		}()
		f(c)
	}()
	c.res.Evaluations = atomic.LoadInt64(&c.evals)
	c.res.WallS = time.Since(t0).Seconds()
	sort.Slice(c.res.Violations, func(i, j int) bool { return c.res.Violations[i].Key < c.res.Violations[j].Key })
	data, _ := json.MarshalIndent(&c.res, "", " ")
	if *out == "" {
		os.Stdout.Write(data)
	} else if err := os.WriteFile(*out, data, 0644); err != nil {
		fmt.Fprintln(os.Stderr, err)
		os.Exit(2)
	}
	if c.res.MachineryError != "" {
		fmt.Fprintln(os.Stderr, "machinery error:", c.res.MachineryError)
		os.Exit(2)
	}
}

// subcommands are process-level entry points used by the history and
// schedule explorers (one fresh process per execution).
var subcommands = map[string]func(args []string) int{}
