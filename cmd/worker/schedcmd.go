package main

import (
	"encoding/json"
	"fmt"
	"io"
	"os"
	"strconv"
	"strings"
	"sync"
	"time"

	bip39 "github.com/islishude/bip39"
	"verifshim/vsched"

	"verif/internal/ref"
)

func init() {
	subcommands["sched"] = schedMain
	subcommands["race"] = raceMain
}

// sharedReader is a goroutine-safe scripted source shared by all threads: every
// Read is one atomic step that hands out the next bytes of the stream and
// remembers who drew them.
type sharedReader struct {
	mu    sync.Mutex
	off   int
	draws map[int][]byte // drawer id -> bytes drawn, in order
	who   func() int
	fail  map[int]bool // drawer id -> its next read delivers 3 bytes and fails
}

func (s *sharedReader) Read(p []byte) (int, error) {
	s.mu.Lock()
	defer s.mu.Unlock()
	id := s.who()
	if s.fail[id] && len(p) > 3 {
		// the source breaks down in the middle of this drawer's call (once)
		delete(s.fail, id)
		for i := 0; i < 3; i++ {
			p[i] = streamByte(s.off + i)
		}
		s.draws[id] = append(s.draws[id], p[:3]...)
		s.off += 3
		return 3, io.ErrUnexpectedEOF
	}
	for i := range p {
		p[i] = streamByte(s.off + i)
	}
	s.draws[id] = append(s.draws[id], p...)
	s.off += len(p)
	return len(p), nil
}

type schedOut struct {
	vsched.Result
	Outcomes  [][]string `json:"outcomes"`
	FinalFP   string     `json:"final_fp"`
	Intact    string     `json:"intact"`
	Sites     int        `json:"sites"`
	Scenario  string     `json:"scenario"`
	NThreads  int        `json:"nthreads"`
	ChoiceLen int        `json:"choice_len"`
}

func parseScenario(s string) [][]string {
	var out [][]string
	for _, t := range strings.Split(s, "|") {
		out = append(out, strings.Split(t, ","))
	}
	return out
}

// nsOp runs NewMnemonic on the shared source and judges the result against the
// bytes this thread drew during the call.
func nsOp(m *ref.Model, sr *sharedReader, id int, op string) string {
	parts := strings.Split(op, ":")
	l, _ := strconv.Atoi(parts[1])
	n := 12
	if len(parts) > 2 {
		n, _ = strconv.Atoi(parts[2])
	}
	sr.mu.Lock()
	before := len(sr.draws[id])
	if len(parts) > 3 && parts[3] == "F" {
		if sr.fail == nil {
			sr.fail = map[int]bool{}
		}
		sr.fail[id] = true
	}
	sr.mu.Unlock()
	var s string
	var err error
	pn := call(func() { s, err = bip39.NewMnemonic(n, bip39.Language(l)) })
	if pn != "" {
		return "PANIC:" + pn
	}
	sr.mu.Lock()
	drawn := append([]byte(nil), sr.draws[id][before:]...)
	sr.mu.Unlock()
	if err != nil {
		if len(parts) > 3 && parts[3] == "F" && s == "" {
			// the source of this call broke down: an error and no mnemonic is what the call gives
			// alone, whatever the wording or wrapping of the error
			return "NS-failed-closed"
		}
		return "NS-ERROR:" + err.Error()
	}
	if len(drawn) != n+n/3 {
		return fmt.Sprintf("NS-MISMATCH: the call drew %d bytes from the shared source, want %d", len(drawn), n+n/3)
	}
	if want := m.Encode(drawn, material(l)); s != want {
		return fmt.Sprintf("NS-MISMATCH: got %q, but the bytes this call drew (%x) encode to %q", s, drawn, want)
	}
	return "NS-consistent"
}

// schedMain: worker -prop sched <scenario> <choices> <K> <hb>
func schedMain(args []string) int {
	verif := "/verif"
	if v := os.Getenv("VERIF_DIR"); v != "" {
		verif = v
	}
	m, err := ref.LoadLangs(verif+"/golden", langsOfOps(args[0]))
	if err != nil {
		fmt.Fprintln(os.Stderr, err)
		return 2
	}
	t0 := time.Now()
	defer func() {
		if os.Getenv("VERIF_TIMING") != "" {
			fmt.Fprintln(os.Stderr, "total", time.Since(t0))
		}
	}()
	scen := parseScenario(args[0])
	var prefix []int
	if len(args) > 1 && args[1] != "" {
		for _, c := range strings.Split(args[1], ",") {
			x, _ := strconv.Atoi(c)
			prefix = append(prefix, x)
		}
	}
	k := 3
	if len(args) > 2 {
		k, _ = strconv.Atoi(args[2])
	}
	hb := len(args) <= 3 || args[3] != "0"
	out := schedOut{Scenario: args[0], NThreads: len(scen), Sites: vsched.NumSites(), ChoiceLen: len(prefix)}
	out.Outcomes = make([][]string, len(scen))
	runners := make([]*histRunner, len(scen))
	sr := &sharedReader{draws: map[int][]byte{}, who: vsched.Current}
	usesShared := strings.Contains(args[0], "NS:")
	var prev interface{ Read([]byte) (int, error) }
	if usesShared {
		prev = bip39.VerifSwapRandSource(sr)
	}
	bodies := make([]func(), len(scen))
	for i := range scen {
		i := i
		runners[i] = &histRunner{m: m}
		bodies[i] = func() {
			for _, op := range scen[i] {
				if strings.HasPrefix(op, "NS:") {
					out.Outcomes[i] = append(out.Outcomes[i], nsOp(m, sr, i, op))
				} else {
					out.Outcomes[i] = append(out.Outcomes[i], runners[i].exec(op))
				}
			}
		}
	}
	t1 := time.Now()
	res := vsched.Run(bodies, vsched.Options{Prefix: prefix, K: k, HBDetector: hb})
	if os.Getenv("VERIF_TIMING") != "" {
		fmt.Fprintln(os.Stderr, "load", t1.Sub(t0), "run", time.Since(t1))
	}
	out.Result = *res
	if usesShared {
		bip39.VerifSwapRandSource(prev)
	}
	if res.Deadlock == "" {
		for _, r := range runners {
			for _, kp := range r.keep {
				if string(kp.live()) != string(kp.copy) {
					out.Intact = fmt.Sprintf("%s changed afterwards: was %x, now %x", kp.what, kp.copy, kp.live())
				}
			}
		}
		t2 := time.Now()
		out.FinalFP, _, _ = fingerprint()
		if os.Getenv("VERIF_TIMING") != "" {
			fmt.Fprintln(os.Stderr, "fingerprint", time.Since(t2))
		}
	}
	data, _ := json.Marshal(&out)
	emitResult(data)
	return 0
}

// raceMain: worker -prop race <scenario>: the same thread bodies free-running
// on real goroutines released from a barrier (binary built with -race).
func raceMain(args []string) int {
	verif := "/verif"
	if v := os.Getenv("VERIF_DIR"); v != "" {
		verif = v
	}
	m, err := ref.Load(verif + "/golden")
	if err != nil {
		fmt.Fprintln(os.Stderr, err)
		return 2
	}
	scen := parseScenario(args[0])
	jitter := 0
	if len(args) > 1 {
		jitter, _ = strconv.Atoi(args[1])
	}
	outcomes := make([][]string, len(scen))
	sr := &sharedReader{draws: map[int][]byte{}}
	sr.who = func() int { return 0 }
	usesShared := strings.Contains(args[0], "NS:")
	if usesShared {
		// per-goroutine identity is not available without the scheduler: the shared-source
		// scenarios only serve race detection here, their results are not judged
		bip39.VerifSwapRandSource(sr)
	}
	var start, wg sync.WaitGroup
	start.Add(1)
	for i := range scen {
		i := i
		wg.Add(1)
		go func() {
			defer wg.Done()
			r := &histRunner{m: m}
			start.Wait()
			for x := 0; x < (jitter*(i+1))%7*50; x++ {
				_ = x * x
			}
			// first round from the cold start, then warm rounds (steady-state sharing)
			for round := 0; round < 12; round++ {
				for _, op := range scen[i] {
					var o string
					if strings.HasPrefix(op, "NS:") {
						parts := strings.Split(op, ":")
						l, _ := strconv.Atoi(parts[1])
						s, err := bip39.NewMnemonic(12, bip39.Language(l))
						o = fmt.Sprint(len(s) > 0, err)
					} else {
						o = r.exec(op)
					}
					if round == 0 {
						outcomes[i] = append(outcomes[i], o)
					}
				}
				r.keep = nil
			}
		}()
	}
	start.Done()
	wg.Wait()
	data, _ := json.Marshal(outcomes)
	emitResult(data)
	return 0
}
