package main

import (
	"crypto/sha256"
	"encoding/json"
	"fmt"
	"os"
	"os/exec"
	"strconv"
	"strings"
	"time"

	bip39 "github.com/islishude/bip39"
	"golang.org/x/text/unicode/norm"
	"verif/internal/ref"
)

// Cold-start phase shared by C01, C02, C03, C08 and C10: the in-process checks evaluate millions of
// inputs, but always in a process that has already used every language. Here, for each language f,
// a fresh child process makes its very FIRST library call in f (an encoding in mode "enc", a
// validation in mode "chk") and then goes through all ten languages, everything compared with the
// reference model. What depends on which language (or the zero value of Language) came first -
// lazily chosen tables, normalisers or buffers - shows here.

type coldMismatch struct {
	Class string `json:"class"` // enc | canon | equiv | bad
	First int    `json:"first"`
	Lang  int    `json:"lang"`
	Input string `json:"input"` // hex
	Got   string `json:"got"`
	Want  string `json:"want"`
}

func init() { subcommands["coldfirst"] = coldFirstMain }

func coldEntropy(l, k int) []byte {
	d := sha256.Sum256([]byte(fmt.Sprintf("cold-%d-%d", l, k)))
	return append([]byte(nil), d[:16+4*(k%5)]...)
}

// equivSpelling is the non-canonical but NFKD-equivalent spelling used by C13's CN operation.
func equivSpelling(words []string) string {
	var b strings.Builder
	for _, r := range norm.NFC.String(strings.Join(words, "\u3000")) {
		if r >= 'a' && r <= 'z' {
			r += 0xFF41 - 'a'
		}
		b.WriteRune(r)
	}
	return b.String()
}

// coldFirstMain: worker -prop coldfirst <enc|chk> <first language>; prints the mismatches.
func coldFirstMain(args []string) int {
	verif := "/verif"
	if v := os.Getenv("VERIF_DIR"); v != "" {
		verif = v
	}
	mode := args[0]
	first, _ := strconv.Atoi(args[1])
	m, err := ref.Load(verif + "/golden")
	if err != nil {
		fmt.Fprintln(os.Stderr, err)
		return 2
	}
	var out []coldMismatch
	add := func(class string, l int, input []byte, got, want string) {
		if len(out) < 50 {
			out = append(out, coldMismatch{class, first, l, hx(input), got, want})
		}
	}
	order := []int{first}
	for l := 0; l < ref.NLang; l++ {
		if l != first {
			order = append(order, l)
		}
	}
	enc := func(l, n int) {
		for k := 0; k < n; k++ {
			e := coldEntropy(l, k)
			var got string
			var gerr error
			pn := call(func() { got, gerr = bip39.NewMnemonicByEntropy(e, Langs[l]) })
			if want := m.Encode(e, l); pn != "" || gerr != nil || got != want {
				add("enc", l, e, fmt.Sprintf("%q err=%v panic=%q", got, gerr, pn), fmt.Sprintf("%q", want))
			}
		}
	}
	chk := func(l, n int) {
		for k := 0; k < n; k++ {
			words := m.Words(coldEntropy(l, k), l)
			canon := strings.Join(words, " ")
			verdict := func(s string) string {
				var e error
				if pn := call(func() { e = bip39.CheckMnemonic(s, Langs[l]) }); pn != "" {
					return "panic: " + pn
				}
				return errString(e)
			}
			if v := verdict(canon); v != "nil" {
				add("canon", l, []byte(canon), v, "nil")
			}
			eq := equivSpelling(words)
			if v := verdict(eq); v != "nil" {
				add("equiv", l, []byte(eq), v, "nil")
			}
			bad := append([]string(nil), words...)
			bad[len(bad)-1] = m.List[l][(m.Dict[l][bad[len(bad)-1]]+1)%2048]
			if v, _ := m.ValidateTokens(bad, l); v != ref.VValid {
				if got := verdict(strings.Join(bad, " ")); got == "nil" {
					add("bad", l, []byte(strings.Join(bad, " ")), got, v)
				}
			}
		}
	}
	for i, l := range order {
		n := 12
		if i == 0 {
			n = 60 // the first language gets the longer run
		}
		if mode == "enc" {
			enc(l, n)
		} else {
			chk(l, n)
		}
	}
	// and the other direction afterwards (tables built by the other entry point)
	for _, l := range order {
		if mode == "enc" {
			chk(l, 4)
		} else {
			enc(l, 4)
		}
	}
	data, _ := json.Marshal(out)
	emitResult(data)
	return 0
}

func runColdChild(mode string, first int) ([]coldMismatch, error) {
	cmd := exec.Command(os.Args[0], "-prop", "coldfirst", mode, strconv.Itoa(first))
	cmd.Env = os.Environ()
	done := make(chan struct{})
	var o []byte
	var err error
	go func() { o, err = cmd.Output(); close(done) }()
	select {
	case <-done:
	case <-time.After(300 * time.Second):
		cmd.Process.Kill()
		<-done
		return nil, fmt.Errorf("cold-start child %s/%d did not finish within 300 s", mode, first)
	}
	if err != nil {
		return nil, fmt.Errorf("cold-start child %s/%d: %v", mode, first, err)
	}
	var mm []coldMismatch
	if jerr := json.Unmarshal(extractResultLine(o), &mm); jerr != nil {
		return nil, fmt.Errorf("cold-start child %s/%d: unreadable output", mode, first)
	}
	return mm, nil
}

// coldStartPhase runs the twenty children (both modes x ten first languages) and reports the
// mismatches of the given classes as violations of the calling check.
func (c *Ctx) coldStartPhase(classes ...string) {
	want := map[string]bool{}
	for _, cl := range classes {
		want[cl] = true
	}
	type job struct {
		mode  string
		first int
	}
	ParB(c.NCPU, 1, func(emit func(job)) {
		for _, mode := range []string{"enc", "chk"} {
			for f := 0; f < ref.NLang; f++ {
				emit(job{mode, f})
			}
		}
	}, func(j job) {
		mm, err := runColdChild(j.mode, j.first)
		if err != nil {
			c.Fatal("%v", err)
		}
		c.Eval(60 + 9*12 + 10*4)
		for _, x := range mm {
			if !want[x.Class] {
				continue
			}
			c.Violate(fmt.Sprintf("cold:%s:%d:%d:%s", j.mode, j.first, x.Lang, x.Input),
				fmt.Sprintf("in a fresh process whose first library call is %s in %s: %s case in %s, input %+q: got %s, reference %s", map[string]string{"enc": "an encoding", "chk": "a validation"}[j.mode], ref.LangNames[j.first], x.Class, ref.LangNames[x.Lang], string(unhex(x.Input)), x.Got, x.Want),
				map[string]interface{}{"kind": "cold", "mode": j.mode, "first": j.first, "class": x.Class})
		}
	})
	c.AddScope("cold-start children: first library call an encoding / a validation in each of the ten languages, then all languages, against the reference", 20, true, "classes judged here: "+strings.Join(classes, ", "))
}

func init() {
	replayers["cold"] = func(m *ref.Model, cs map[string]interface{}) bool {
		mode, _ := cs["mode"].(string)
		class, _ := cs["class"].(string)
		first := toInt(cs["first"])
		mm, err := runColdChild(mode, first)
		if err != nil {
			fmt.Println(err)
			return false
		}
		ok := true
		for _, x := range mm {
			if x.Class == class {
				fmt.Printf(" first call %s in %s; %s case in %s on %+q: got %s, reference %s\n", mode, ref.LangNames[first], x.Class, ref.LangNames[x.Lang], string(unhex(x.Input)), x.Got, x.Want)
				ok = false
			}
		}
		fmt.Printf("cold-start child (%s first in %s): %d mismatches of class %s\n", mode, ref.LangNames[first], map[bool]int{true: 0, false: 1}[ok], class)
		return ok
	}
}

// extractResultLine returns the JSON document after the last result marker of a child's output.
func extractResultLine(out []byte) []byte {
	const marker = "VERIF-RESULT-7f3a9c "
	i := strings.LastIndex(string(out), marker)
	if i < 0 {
		return nil
	}
	rest := string(out[i+len(marker):])
	if j := strings.IndexByte(rest, '\n'); j >= 0 {
		rest = rest[:j]
	}
	return []byte(rest)
}
