package main

import (
	"crypto/sha256"
	"fmt"
	"sync"
	"sync/atomic"

	"verif/internal/enum"
	"verif/internal/ref"
)

// entCoverage measures what a set of entropies covers, independently of how
// the enumerators produced them.
type entCoverage struct {
	mu     [256]sync.Mutex
	sets   [256]map[string]struct{}
	posIdx [5][24][2048]uint32 // (size, word position, index) seen
	csByte [5][256]uint32
}

func newEntCoverage() *entCoverage {
	ec := &entCoverage{}
	for i := range ec.sets {
		ec.sets[i] = map[string]struct{}{}
	}
	return ec
}

func sizeIdx(L int) int { return L/4 - 4 }

// observe returns true if e was not seen before.
func (ec *entCoverage) observe(e []byte) bool {
	h := sha256.Sum256(e)
	sh := int(h[1])
	ec.mu[sh].Lock()
	_, dup := ec.sets[sh][string(e)]
	if !dup {
		ec.sets[sh][string(e)] = struct{}{}
	}
	ec.mu[sh].Unlock()
	if dup {
		return false
	}
	idx := ref.Indices(e)
	si := sizeIdx(len(e))
	for p, x := range idx {
		if atomic.LoadUint32(&ec.posIdx[si][p][x]) == 0 {
			atomic.StoreUint32(&ec.posIdx[si][p][x], 1)
		}
	}
	atomic.StoreUint32(&ec.csByte[si][h[0]], 1)
	return true
}

func (ec *entCoverage) distinct() int64 {
	var n int64
	for i := range ec.sets {
		n += int64(len(ec.sets[i]))
	}
	return n
}

// report returns (covered, total) for the (size, position, index) matrix and
// the (size, first hash byte) matrix.
func (ec *entCoverage) report() (posCov, posTot, csCov, csTot int) {
	for si, L := range enum.EntLens {
		n := 3 * L / 4
		for p := 0; p < n; p++ {
			for x := 0; x < 2048; x++ {
				posTot++
				if ec.posIdx[si][p][x] != 0 {
					posCov++
				}
			}
		}
		for b := 0; b < 256; b++ {
			csTot++
			if ec.csByte[si][b] != 0 {
				csCov++
			}
		}
	}
	return
}

// entScopes enumerates the entropy scopes of DESIGN §2.4 for this tier and
// calls handle for every distinct entropy (in parallel).
func (c *Ctx) entScopes(handle func(e []byte)) *entCoverage {
	ec := newEntCoverage()
	type scope struct {
		name string
		gen  func(emit enum.Emit)
	}
	var scopes []scope
	for _, L := range enum.EntLens {
		L := L
		nbg := 2
		if c.Thorough {
			nbg = 4
		}
		scopes = append(scopes, scope{fmt.Sprintf("E_win L=%d backgrounds=%d", L, nbg), func(emit enum.Emit) { enum.Win(L, nbg, emit) }})
		r := 1
		if c.Thorough || L == 16 {
			r = 2
		}
		if c.Thorough && L == 16 {
			r = 3
		}
		scopes = append(scopes, scope{fmt.Sprintf("E_ham L=%d radius=%d", L, r), func(emit enum.Emit) { enum.Ham(L, r, emit) }})
		scopes = append(scopes, scope{fmt.Sprintf("E_run L=%d", L), func(emit enum.Emit) { enum.Run(L, emit) }})
		scopes = append(scopes, scope{fmt.Sprintf("E_byte L=%d", L), func(emit enum.Emit) { enum.Byte(L, emit) }})
		if c.Thorough && (L == 16 || L == 32) {
			scopes = append(scopes, scope{fmt.Sprintf("E_bytepair L=%d", L), func(emit enum.Emit) { enum.BytePair(L, emit) }})
		}
		maxP := 12
		if c.Thorough {
			maxP = 16
		}
		scopes = append(scopes, scope{fmt.Sprintf("E_per L=%d periods 1..%d", L, maxP), func(emit enum.Emit) { enum.Per(L, maxP, emit) }})
		if c.Thorough {
			scopes = append(scopes, scope{fmt.Sprintf("E_blk L=%d", L), func(emit enum.Emit) { enum.Blk(L, emit) }})
		}
		scopes = append(scopes, scope{fmt.Sprintf("E_cs L=%d", L), func(emit enum.Emit) {
			if !enum.Cs(L, 1<<20, emit) {
				c.AddScope(fmt.Sprintf("E_cs L=%d (cap)", L), 0, false, "counter cap hit before all 256 first hash bytes were seen")
			}
		}})
	}
	for _, s := range scopes {
		var n int64
		Par(c.NCPU, func(emit func([]byte)) {
			s.gen(func(e []byte) { n++; emit(e) })
		}, func(e []byte) {
			if ec.observe(e) {
				handle(e)
			}
		})
		c.AddScope(s.name, n, true, "")
	}
	pc, pt, cc, ct := ec.report()
	c.SetExtra("coverage_size_position_index", fmt.Sprintf("%d/%d", pc, pt))
	c.SetExtra("coverage_size_firsthashbyte", fmt.Sprintf("%d/%d", cc, ct))
	if pc != pt || cc != ct {
		c.AddScope("coverage matrices", 0, false, "a (size,position,index) or (size,hash byte) cell was not covered")
	}
	c.mu.Lock()
	c.res.Distinct = ec.distinct()
	c.mu.Unlock()
	return ec
}
