package main

import (
	"errors"
	"fmt"
	"io"
	"strings"

	bip39 "github.com/islishude/bip39"

	"verif/internal/ref"
)

func init() {
	registry["C06"] = runC06
	sharded["C06"] = true
}

// answer is one scripted reply of the randomness source.
type answer struct {
	n   int   // bytes to deliver (clamped to the buffer offered)
	err error // error returned alongside
}

var errCustom = errors.New("verif: injected source failure")

// scriptedReader delivers the fixed stream pattern[0], pattern[1], ... cut as
// the script says; after the script it fills whatever is asked (default answer).
type scriptedReader struct {
	script    []answer
	pos       int // next answer
	delivered int // bytes handed out so far
	reads     int
	requested int // sum of len(p) over all reads
	clamped   bool
}

// streamByte gives distinct values at every offset below 256.
func streamByte(i int) byte { return byte(i*37 + 11) }

func (r *scriptedReader) Read(p []byte) (int, error) {
	r.reads++
	r.requested += len(p)
	if r.reads > 10000 {
		return 0, errors.New("verif: read budget exhausted (harness horizon)")
	}
	n, err := len(p), error(nil)
	if r.pos < len(r.script) {
		a := r.script[r.pos]
		r.pos++
		n, err = a.n, a.err
		if n > len(p) {
			n = len(p)
			r.clamped = true
		}
	}
	for i := 0; i < n; i++ {
		p[i] = streamByte(r.delivered + i)
	}
	r.delivered += n
	return n, err
}

func scriptString(s []answer) string {
	var b strings.Builder
	for i, a := range s {
		if i > 0 {
			b.WriteByte(' ')
		}
		switch {
		case a.err == nil:
			fmt.Fprintf(&b, "%d", a.n)
		case a.err == io.EOF:
			fmt.Fprintf(&b, "%d+EOF", a.n)
		case a.err == io.ErrUnexpectedEOF:
			fmt.Fprintf(&b, "%d+UEOF", a.n)
		default:
			fmt.Fprintf(&b, "%d+ERR", a.n)
		}
	}
	return b.String()
}

func parseScript(s string) []answer {
	var out []answer
	for _, f := range strings.Fields(s) {
		var a answer
		parts := strings.SplitN(f, "+", 2)
		fmt.Sscanf(parts[0], "%d", &a.n)
		if len(parts) == 2 {
			switch parts[1] {
			case "EOF":
				a.err = io.EOF
			case "UEOF":
				a.err = io.ErrUnexpectedEOF
			default:
				a.err = errCustom
			}
		}
		out = append(out, a)
	}
	return out
}

// runScript executes NewMnemonic(n, lang) over the script and checks the
// fail-closed / exact-bytes oracle. It returns a description of the defect or "".
func runScript(m *ref.Model, n, l int, script []answer) (bad string, outcome string) {
	N := n + n/3
	src := &scriptedReader{script: script}
	prev := bip39.VerifSwapRandSource(src)
	var got string
	var err error
	pn := call(func() { got, err = bip39.NewMnemonic(n, Langs[l]) })
	bip39.VerifSwapRandSource(prev)
	if pn != "" {
		return "panic: " + pn, "panic"
	}
	// how many bytes did the source deliver before it first failed?
	deliveredBeforeFailure := 0
	failed := false
	for _, a := range script {
		k := a.n
		if deliveredBeforeFailure+k > N {
			k = N - deliveredBeforeFailure
		}
		deliveredBeforeFailure += k
		if a.err != nil {
			failed = true
			break
		}
		if deliveredBeforeFailure >= N {
			break
		}
	}
	want := func() string {
		e := make([]byte, N)
		for i := range e {
			e[i] = streamByte(i)
		}
		return m.Encode(e, l)
	}
	if failed && deliveredBeforeFailure < N {
		if got != "" || err == nil {
			return fmt.Sprintf("source failed after %d of %d bytes but NewMnemonic returned (%q, %v)", deliveredBeforeFailure, N, got, err), "accepted-partial"
		}
		return "", "failed-closed"
	}
	if failed && deliveredBeforeFailure == N {
		// the error arrived in the same read that completed the buffer: success (io.ReadFull
		// semantics) and fail-closed are both within the statement
		if err != nil {
			if got != "" {
				return fmt.Sprintf("error %v returned together with a mnemonic %q", err, got), "both"
			}
			return "", "boundary-failed-closed"
		}
		if got != want() {
			return fmt.Sprintf("got %q, want the encoding of the %d delivered bytes %q", got, N, want()), "wrong"
		}
		return "", "boundary-success"
	}
	// the source never fails before N bytes: must succeed with exactly those bytes
	if err != nil || got != want() {
		return fmt.Sprintf("source delivered %d bytes in %d reads without failing, got (%q, %v), want (%q, nil)", src.delivered, src.reads, got, err, want()), "wrong"
	}
	if w := strings.Split(got, ref.Sep(l)); len(w) != n {
		return fmt.Sprintf("result has %d words, want %d", len(w), n), "wrong"
	}
	return "", "success"
}

func runC06(c *Ctx) {
	c.res.Rule = "NewMnemonic under a scripted randomness source whose stream has a distinct value at every offset; a script is a list of answers (k bytes, error) and every script of the following families is executed, for each n in {12,15,18,21,24} (N=4n/3), language rotating over all ten: (a) every failure point k in [0,N) x kind {EOF, ErrUnexpectedEOF, custom} x j in [0,N-k] bytes returned alongside, after every fragmentation of the first k bytes with <=2 cuts; (b) every fragmentation of a successful delivery: all compositions of N for N=16 (quick) and N=16,20,24 (thorough), all with <=4 cuts otherwise; (c) <=2 zero-length reads inserted anywhere into every <=2-cut fragmentation; (d) over-long answers. Oracle: fewer than N bytes before the failure => (\"\", err != nil); otherwise the reference encoding of the first N delivered bytes with n words and nil error. distinct_nontrivial = distinct (n, script) cases with at least one deviation from the default answer"
	c.Assume("verif hook VerifSwapRandSource swaps the package-level source; deviations = short read, zero-length read, error with/without bytes")
	outcomes := map[string]int64{}
	var idx, distinct int64
	mine := func() bool {
		idx++
		return int((idx-1)%int64(c.NShard)) == c.Shard
	}
	exec := func(n int, script []answer, family string) {
		if !mine() {
			return
		}
		l := int(idx % ref.NLang)
		bad, out := runScript(c.M, n, l, script)
		c.Eval(1)
		outcomes[out]++
		if len(script) > 0 {
			distinct++
		}
		if bad != "" {
			ss := scriptString(script)
			c.Violate(fmt.Sprintf("script:%d:%d:%s", n, l, ss), fmt.Sprintf("NewMnemonic(%d,%s) with source script [%s] (%s): %s", n, ref.LangNames[l], ss, family, bad),
				map[string]interface{}{"kind": "script", "count": n, "lang": l, "script": ss})
		}
		if idx%100003 == 1 {
			c.Sample(6, map[string]interface{}{"n": n, "lang": ref.LangNames[l], "script": scriptString(script), "outcome": out, "family": family})
		}
	}
	// compositions of total into parts with at most maxCuts cuts
	var compose func(total, maxCuts int, prefix []int, f func(parts []int))
	compose = func(total, maxCuts int, prefix []int, f func(parts []int)) {
		if total == 0 {
			f(prefix)
			return
		}
		// last part
		f(append(prefix, total))
		if maxCuts == 0 {
			return
		}
		for first := 1; first < total; first++ {
			compose(total-first, maxCuts-1, append(prefix, first), f)
		}
	}
	kinds := []error{io.EOF, io.ErrUnexpectedEOF, errCustom}
	for _, n := range []int{12, 15, 18, 21, 24} {
		N := n + n/3
		// (a) failures
		var na int64
		for k := 0; k < N; k++ {
			compose(k, 2, nil, func(parts []int) {
				for _, kind := range kinds {
					for j := 0; j <= N-k; j++ {
						s := make([]answer, 0, len(parts)+1)
						for _, p := range parts {
							s = append(s, answer{p, nil})
						}
						s = append(s, answer{j, kind})
						exec(n, s, "failure")
						na++
					}
				}
			})
		}
		c.AddScope(fmt.Sprintf("n=%d (a) failure point x kind x bytes alongside x <=2-cut prefix fragmentation", n), na, true, "")
		// (b) fragmentations of a successful delivery
		maxCuts := 4
		if N == 16 || (c.Thorough && N <= 24) {
			maxCuts = N - 1
		}
		var nb int64
		compose(N, maxCuts, nil, func(parts []int) {
			s := make([]answer, len(parts))
			for i, p := range parts {
				s[i] = answer{p, nil}
			}
			exec(n, s, "fragmentation")
			nb++
		})
		note := fmt.Sprintf("<=%d cuts", maxCuts)
		if maxCuts == N-1 {
			note = "all compositions"
		}
		c.AddScope(fmt.Sprintf("n=%d (b) fragmentations of %d bytes", n, N), nb, true, note)
		// (c) zero-length reads
		var nc int64
		compose(N, 2, nil, func(parts []int) {
			L := len(parts)
			for z1 := 0; z1 <= L; z1++ {
				for z2 := z1; z2 <= L; z2++ {
					for _, two := range []bool{false, true} {
						if !two && z2 != z1 {
							continue
						}
						var s []answer
						for i := 0; i <= L; i++ {
							if i == z1 {
								s = append(s, answer{0, nil})
							}
							if two && i == z2 {
								s = append(s, answer{0, nil})
							}
							if i < L {
								s = append(s, answer{parts[i], nil})
							}
						}
						exec(n, s, "zero-reads")
						nc++
					}
				}
			}
		})
		c.AddScope(fmt.Sprintf("n=%d (c) <=2 zero-length reads in <=2-cut fragmentations", n), nc, true, "")
		// (d) answers longer than asked, EOF right at the end, trailing failure after completion
		for _, s := range [][]answer{{{N + 5, nil}}, {{N, io.EOF}}, {{N, nil}, {0, io.EOF}}, {{N - 1, nil}, {1, errCustom}}, {{N - 1, nil}, {0, nil}, {0, io.EOF}}, {}} {
			exec(n, s, "edge")
		}
	}
	c.SetExtra("outcomes", outcomes)
	c.mu.Lock()
	c.res.Distinct = distinct
	c.mu.Unlock()
}
