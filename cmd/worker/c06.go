package main

import (
	"errors"
	"fmt"
	"io"
	"strings"

	bip39 "github.com/islishude/bip39"

	"verif/internal/ref"
)

func init() {
	registry["C06"] = runC06
	sharded["C06"] = true
}

// answer is one scripted reply of the randomness source.
type answer struct {
	n   int   // bytes to deliver (clamped to the buffer offered)
	err error // error returned alongside
}

var errCustom = errors.New("verif: injected source failure")

// errTemporary looks like a transient network/OS error (Temporary() and Timeout() true).
type tempErr struct{}

func (tempErr) Error() string   { return "verif: resource temporarily unavailable" }
func (tempErr) Temporary() bool { return true }
func (tempErr) Timeout() bool   { return true }

var errTemporary error = tempErr{}

// scriptedReader delivers the fixed stream pattern[0], pattern[1], ... cut as
// the script says; after the script it fills whatever is asked (default answer).
type scriptedReader struct {
	sticky    bool // once an answer carried an error, every later read fails the same way
	stuck     error
	script    []answer
	pos       int // next answer
	delivered int // bytes handed out so far
	reads     int
	requested int // sum of len(p) over all reads
	clamped   bool
}

// streamByte gives distinct values at every offset below 256.
func streamByte(i int) byte { return byte(i*37 + 11) }

func (r *scriptedReader) Read(p []byte) (int, error) {
	r.reads++
	r.requested += len(p)
	if r.reads > 10000 || len(p) > 1<<20 {
		return 0, errors.New("verif: read budget exhausted (harness horizon)")
	}
	if r.stuck != nil {
		return 0, r.stuck
	}
	n, err := len(p), error(nil)
	if r.pos < len(r.script) {
		a := r.script[r.pos]
		r.pos++
		n, err = a.n, a.err
		if n > len(p) {
			n = len(p)
			r.clamped = true
		}
	}
	for i := 0; i < n; i++ {
		p[i] = streamByte(r.delivered + i)
	}
	r.delivered += n
	if err != nil && r.sticky {
		r.stuck = err
	}
	return n, err
}

// Variants of the scripted source that additionally implement interfaces an implementation might
// probe for (size hints, byte-wise reading, bulk copy). Their Read behaviour is the same script.
type lenReader struct{ *scriptedReader }

func (r lenReader) Len() int { return 1 << 20 }

type byteReader struct{ *scriptedReader }

func (r byteReader) ReadByte() (byte, error) {
	var b [1]byte
	for {
		n, err := r.Read(b[:])
		if n == 1 {
			return b[0], nil
		}
		if err != nil {
			return 0, err
		}
	}
}

type writerToReader struct{ *scriptedReader }

func (r writerToReader) WriteTo(w io.Writer) (int64, error) {
	var total int64
	buf := make([]byte, 7)
	for total < 4096 {
		n, err := r.Read(buf)
		if n > 0 {
			m, werr := w.Write(buf[:n])
			total += int64(m)
			if werr != nil {
				return total, werr
			}
		}
		if err == io.EOF {
			return total, nil
		}
		if err != nil {
			return total, err
		}
	}
	return total, nil
}

func scriptString(s []answer) string {
	var b strings.Builder
	for i, a := range s {
		if i > 0 {
			b.WriteByte(' ')
		}
		switch {
		case a.err == nil:
			fmt.Fprintf(&b, "%d", a.n)
		case a.err == io.EOF:
			fmt.Fprintf(&b, "%d+EOF", a.n)
		case a.err == io.ErrUnexpectedEOF:
			fmt.Fprintf(&b, "%d+UEOF", a.n)
		case a.err == errTemporary:
			fmt.Fprintf(&b, "%d+TEMP", a.n)
		default:
			fmt.Fprintf(&b, "%d+ERR", a.n)
		}
	}
	return b.String()
}

func parseScript(s string) []answer {
	var out []answer
	for _, f := range strings.Fields(s) {
		var a answer
		parts := strings.SplitN(f, "+", 2)
		fmt.Sscanf(parts[0], "%d", &a.n)
		if len(parts) == 2 {
			switch parts[1] {
			case "EOF":
				a.err = io.EOF
			case "UEOF":
				a.err = io.ErrUnexpectedEOF
			case "TEMP":
				a.err = errTemporary
			default:
				a.err = errCustom
			}
		}
		out = append(out, a)
	}
	return out
}

// runScript executes NewMnemonic(n, lang) over the script and checks the
// fail-closed / exact-bytes oracle. It returns a description of the defect or "".
func runScript(m *ref.Model, n, l int, script []answer, sticky bool, variant ...string) (bad string, outcome string) {
	N := n + n/3
	src := &scriptedReader{script: script, sticky: sticky}
	var reader io.Reader = src
	if len(variant) > 0 {
		switch variant[0] {
		case "len":
			reader = lenReader{src}
		case "byte":
			reader = byteReader{src}
		case "writerto":
			reader = writerToReader{src}
		}
	}
	prev := bip39.VerifSwapRandSource(reader)
	var got string
	var err error
	pn := call(func() { got, err = bip39.NewMnemonic(n, Langs[l]) })
	bip39.VerifSwapRandSource(prev)
	if pn != "" {
		return "panic: " + pn, "panic"
	}
	// how many bytes did the source deliver before it first failed?
	deliveredBeforeFailure := 0
	failed := false
	var failedWith error
	for _, a := range script {
		k := a.n
		if deliveredBeforeFailure+k > N {
			k = N - deliveredBeforeFailure
		}
		deliveredBeforeFailure += k
		if a.err != nil {
			failed = true
			failedWith = a.err
			break
		}
		if deliveredBeforeFailure >= N {
			break
		}
	}
	want := func() string {
		e := make([]byte, N)
		for i := range e {
			e[i] = streamByte(i)
		}
		return m.Encode(e, l)
	}
	if failed && deliveredBeforeFailure < N {
		if !sticky && failedWith == errTemporary && err == nil && got == want() {
			// a source that reports a temporary condition and then recovers: retrying and then
			// encoding exactly the first N delivered bytes is a defensible reading of the property
			return "", "retried-transient-error"
		}
		if got != "" || err == nil {
			return fmt.Sprintf("source failed after %d of %d bytes but NewMnemonic returned (%q, %v)", deliveredBeforeFailure, N, got, err), "accepted-partial"
		}
		return "", "failed-closed"
	}
	if failed && deliveredBeforeFailure == N {
		// the error arrived in the same read that completed the buffer: success (io.ReadFull
		// semantics) and fail-closed are both within the statement
		if err != nil {
			if got != "" {
				return fmt.Sprintf("error %v returned together with a mnemonic %q", err, got), "both"
			}
			return "", "boundary-failed-closed"
		}
		if got != want() {
			return fmt.Sprintf("got %q, want the encoding of the %d delivered bytes %q", got, N, want()), "wrong"
		}
		return "", "boundary-success"
	}
	// the source never fails before N bytes: must succeed with exactly those bytes. A source that
	// answers (0, nil) many times in a row is making no progress; giving up with an error (and the
	// empty string) is then as acceptable as waiting: only a wrong or partial mnemonic is a defect.
	zeroRun, maxZeroRun := 0, 0
	for _, a := range script {
		if a.n == 0 && a.err == nil {
			zeroRun++
			if zeroRun > maxZeroRun {
				maxZeroRun = zeroRun
			}
		} else {
			zeroRun = 0
		}
	}
	if maxZeroRun >= 16 && err != nil && got == "" {
		return "", "gave-up-on-no-progress"
	}
	if err != nil || got != want() {
		return fmt.Sprintf("source delivered %d bytes in %d reads without failing, got (%q, %v), want (%q, nil)", src.delivered, src.reads, got, err, want()), "wrong"
	}
	if w := strings.Split(got, ref.Sep(l)); len(w) != n {
		return fmt.Sprintf("result has %d words, want %d", len(w), n), "wrong"
	}
	return "", "success"
}

func runC06(c *Ctx) {
	c.res.Rule = "NewMnemonic under a scripted randomness source whose stream has a distinct value at every offset; a script is a list of answers (k bytes, error) and every script of the following families is executed, for each n in {12,15,18,21,24} (N=4n/3), language rotating over all ten: (a) every failure point k in [0,N) x kind {EOF, ErrUnexpectedEOF, custom, temporary-looking} x j in [0,N-k] bytes returned alongside, after every fragmentation of the first k bytes with <=2 cuts, each once with a source that recovers after the failure and once with a source that keeps failing; (b) every fragmentation of a successful delivery: all compositions of N for N=16 (quick) and N=16,20,24,28 (thorough), otherwise all with <=4 cuts (N=32 thorough: <=6); (c) <=2 zero-length reads inserted anywhere into every <=2-cut fragmentation, and runs of 3..2000 zero-length reads at three offsets (giving up with an error is accepted there); (d) over-long answers; (e) the same scripts on sources that additionally implement Len(), ReadByte() or WriteTo(). Oracle: fewer than N bytes before the failure => (\"\", err != nil); otherwise the reference encoding of the first N delivered bytes with n words and nil error. distinct_nontrivial = distinct (n, script) cases with at least one deviation from the default answer"
	c.Assume("verif hook VerifSwapRandSource swaps the package-level source; deviations = short read, zero-length read, error with/without bytes")
	outcomes := map[string]int64{}
	var idx, distinct int64
	mine := func() bool {
		idx++
		return int((idx-1)%int64(c.NShard)) == c.Shard
	}
	sticky := false
	variant := ""
	exec := func(n int, script []answer, family string) {
		if !mine() {
			return
		}
		l := int(idx % ref.NLang)
		bad, out := runScript(c.M, n, l, script, sticky, variant)
		c.Eval(1)
		outcomes[out]++
		if len(script) > 0 {
			distinct++
		}
		if bad != "" {
			ss := scriptString(script)
			c.Violate(fmt.Sprintf("script:%d:%d:%s:%v:%s", n, l, ss, sticky, variant), fmt.Sprintf("NewMnemonic(%d,%s) with source script [%s] (%s, failures sticky=%v, source variant %q): %s", n, ref.LangNames[l], ss, family, sticky, variant, bad),
				map[string]interface{}{"kind": "script", "count": n, "lang": l, "script": ss, "sticky": sticky, "variant": variant})
		}
		if idx%100003 == 1 {
			c.Sample(6, map[string]interface{}{"n": n, "lang": ref.LangNames[l], "script": scriptString(script), "outcome": out, "family": family})
		}
	}
	// compositions of total into parts with at most maxCuts cuts
	var compose func(total, maxCuts int, prefix []int, f func(parts []int))
	compose = func(total, maxCuts int, prefix []int, f func(parts []int)) {
		if total == 0 {
			f(prefix)
			return
		}
		// last part
		f(append(prefix, total))
		if maxCuts == 0 {
			return
		}
		for first := 1; first < total; first++ {
			compose(total-first, maxCuts-1, append(prefix, first), f)
		}
	}
	kinds := []error{io.EOF, io.ErrUnexpectedEOF, errCustom, errTemporary}
	for _, n := range []int{12, 15, 18, 21, 24} {
		N := n + n/3
		// (a) failures
		var na int64
		for k := 0; k < N; k++ {
			compose(k, 2, nil, func(parts []int) {
				for _, kind := range kinds {
					for j := 0; j <= N-k; j++ {
						s := make([]answer, 0, len(parts)+1)
						for _, p := range parts {
							s = append(s, answer{p, nil})
						}
						s = append(s, answer{j, kind})
						sticky = false
						exec(n, s, "failure")
						sticky = true
						exec(n, s, "failure")
						sticky = false
						na += 2
					}
				}
			})
		}
		c.AddScope(fmt.Sprintf("n=%d (a) failure point x 4 kinds x bytes alongside x <=2-cut prefix fragmentation x {recovering, sticky}", n), na, true, "")
		// (b) fragmentations of a successful delivery
		maxCuts := 4
		if N == 16 || (c.Thorough && N <= 28) {
			maxCuts = N - 1
		}
		if c.Thorough && N == 32 {
			maxCuts = 6
		}
		var nb int64
		compose(N, maxCuts, nil, func(parts []int) {
			s := make([]answer, len(parts))
			for i, p := range parts {
				s[i] = answer{p, nil}
			}
			exec(n, s, "fragmentation")
			nb++
		})
		note := fmt.Sprintf("<=%d cuts", maxCuts)
		if maxCuts == N-1 {
			note = "all compositions"
		}
		c.AddScope(fmt.Sprintf("n=%d (b) fragmentations of %d bytes", n, N), nb, true, note)
		// (c) zero-length reads
		var nc int64
		compose(N, 2, nil, func(parts []int) {
			L := len(parts)
			for z1 := 0; z1 <= L; z1++ {
				for z2 := z1; z2 <= L; z2++ {
					for _, two := range []bool{false, true} {
						if !two && z2 != z1 {
							continue
						}
						var s []answer
						for i := 0; i <= L; i++ {
							if i == z1 {
								s = append(s, answer{0, nil})
							}
							if two && i == z2 {
								s = append(s, answer{0, nil})
							}
							if i < L {
								s = append(s, answer{parts[i], nil})
							}
						}
						exec(n, s, "zero-reads")
						nc++
					}
				}
			}
		})
		c.AddScope(fmt.Sprintf("n=%d (c) <=2 zero-length reads in <=2-cut fragmentations", n), nc, true, "")
		// (c') long runs of zero-length reads at the start, in the middle and before the last byte
		var nz int64
		for _, run := range []int{3, 15, 16, 50, 99, 100, 101, 500, 2000} {
			for _, at := range []int{0, N / 2, N - 1} {
				var s []answer
				if at > 0 {
					s = append(s, answer{at, nil})
				}
				for z := 0; z < run; z++ {
					s = append(s, answer{0, nil})
				}
				s = append(s, answer{N - at, nil})
				exec(n, s, "zero-run")
				nz++
			}
		}
		c.AddScope(fmt.Sprintf("n=%d (c') runs of 3..2000 zero-length reads at three offsets", n), nz, true, "")
		// (e) the same source also offering Len() / ReadByte() / WriteTo(): <=2-cut fragmentations and
		// failures after <=1-cut prefixes
		var nv int64
		for _, v := range []string{"len", "byte", "writerto"} {
			variant = v
			compose(N, 2, nil, func(parts []int) {
				s := make([]answer, len(parts))
				for i, p := range parts {
					s[i] = answer{p, nil}
				}
				exec(n, s, "fragmentation")
				nv++
			})
			for k := 0; k < N; k++ {
				compose(k, 1, nil, func(parts []int) {
					for _, kind := range kinds {
						for _, j := range []int{0, 1, N - k} {
							if j > N-k {
								continue
							}
							s := make([]answer, 0, len(parts)+1)
							for _, p := range parts {
								s = append(s, answer{p, nil})
							}
							s = append(s, answer{j, kind})
							sticky = true
							exec(n, s, "failure")
							sticky = false
							nv++
						}
					}
				})
			}
		}
		variant = ""
		c.AddScope(fmt.Sprintf("n=%d (e) sources that also implement Len / ReadByte / WriteTo", n), nv, true, "")
		// (d) answers longer than asked, EOF right at the end, trailing failure after completion
		for _, s := range [][]answer{{{N + 5, nil}}, {{N, io.EOF}}, {{N, nil}, {0, io.EOF}}, {{N - 1, nil}, {1, errCustom}}, {{N - 1, nil}, {0, nil}, {0, io.EOF}}, {}} {
			exec(n, s, "edge")
		}
	}
	c.SetExtra("outcomes", outcomes)
	c.mu.Lock()
	c.res.Distinct = distinct
	c.mu.Unlock()
}
