package main

import (
	"bytes"
	"fmt"
	"strings"

	bip39 "github.com/islishude/bip39"

	"verif/internal/ref"
)

func init() { registry["C04"] = runC04 }

type seedPair struct {
	m, p  string
	fresh bool // also check freshness of the returned slice
	class string
}

func runC04(c *Ctx) {
	c.res.Rule = "MnemonicToSeed on: all (m,p) in Sigma^<=2 x Sigma^<=1 and Sigma^<=1 x Sigma^<=2 (thorough: Sigma^<=2 x Sigma^<=2) over a 16-letter Unicode probe alphabet (precomposed/decomposed, full-width, long compatibility expansions, half-width kana + voiced mark, reordering marks, Hangul, ligature, 18-char expansion, astral); Sigma^<=3 for one argument with the other fixed; byte-length ladders 0..300 of 'a', U+00E9 and U+3042 runs for each argument (HMAC block / SHA-512 padding boundaries); runs of 1..140 full-width a and U+3000 (NFKD three times shorter) and 1..12 U+FDFA (eleven times longer) for each argument and lengths around 512 B, 1 KiB, 4 KiB, 64 KiB; every assigned code point whose NFKD differs from itself (5795 non-Hangul; Hangul syllables: all in thorough, every 97th in quick) alone as passphrase and (quick: every second) as mnemonic; combining-mark run probes a+U+0301 x k; valid sentences of all ten languages with stray leading/trailing/doubled white space and changed case; 19 white-space/control/invisible characters (TAB, LF, CR, CRLF, VT, FF, NUL, ESC, DEL, NEL, NBSP, LS, PS, U+3000, ZWSP, ZWJ, BOM, SHY) before, after, around, doubled after and between four cores in either argument; sequential call triples whose arguments concatenate to the same text. Oracle: byte equality with a hand-written PBKDF2-HMAC-SHA512 over CPython-NFKD forms, length 64, fresh slice on every call. distinct_nontrivial = distinct (mnemonic, passphrase) pairs"
	c.Assume("CPython unicodedata (Unicode 14) NFKD is the standard NFKD for the assigned code points used", "hand-written PBKDF2 cross-checked against OpenSSL via hashlib on every run")

	var pairs []seedPair
	s1, s2, s3 := sigmaStrings(1), sigmaStrings(2), sigmaStrings(3)
	if c.Thorough {
		for _, a := range s2 {
			for _, b := range s2 {
				pairs = append(pairs, seedPair{a, b, false, "sigma2xsigma2"})
			}
		}
	} else {
		for _, a := range s2 {
			for _, b := range s1 {
				pairs = append(pairs, seedPair{a, b, false, "sigma2xsigma1"})
				if a != b {
					pairs = append(pairs, seedPair{b, a, false, "sigma1xsigma2"})
				}
			}
		}
	}
	others := []string{""}
	if c.Thorough {
		others = []string{"", "TREZOR"}
	}
	for _, a := range s3 {
		for _, o := range others {
			pairs = append(pairs, seedPair{a, o, false, "sigma3-mnemonic"}, seedPair{o, a, false, "sigma3-passphrase"})
		}
	}
	for _, unit := range []string{"a", "\u00e9", "\u3042"} {
		for k := 0; k*len(unit) <= 300; k++ {
			s := strings.Repeat(unit, k)
			pairs = append(pairs, seedPair{s, "", true, "ladder-mnemonic"}, seedPair{"abandon", s, true, "ladder-passphrase"})
		}
	}
	// runs whose NFKD form is shorter (full-width a, U+3000: 3 bytes -> 1) or much longer (U+FDFA: 3 bytes
	// -> 33) than the typed text: the HMAC block-size decision (key > 128 bytes is hashed first) must be
	// taken on the normalised bytes, and so must any other length-dependent step
	for _, unit := range []string{"\uff41", "\u3000", "\ufdfa"} {
		kmax := 140
		if unit == "\ufdfa" {
			kmax = 12
		}
		for k := 1; k <= kmax; k++ {
			s := strings.Repeat(unit, k)
			pairs = append(pairs, seedPair{s, "", false, "shrinking-or-growing-run-mnemonic"}, seedPair{"abandon", s, false, "shrinking-or-growing-run-passphrase"})
		}
	}
	// lengths around larger powers of two (truncation or chunking at 512 B, 1 KiB, 4 KiB, 64 KiB)
	for _, n := range []int{511, 512, 513, 1023, 1024, 1025, 4095, 4096, 4097, 65535, 65536, 65537} {
		for _, unit := range []string{"a", "\u00e9"} {
			s := strings.Repeat(unit, n/len(unit)+1)[:n/len(unit)*len(unit)]
			pairs = append(pairs, seedPair{s, "", false, "long-mnemonic"}, seedPair{"abandon", s, false, "long-passphrase"})
		}
	}
	for pad := 0; pad < 5; pad++ {
		// misordered marks at every alignment in a long text (chunked normalisers, see C11)
		raw := strings.Repeat("x", pad) + strings.Repeat("a\u0301\u0323", 14000)
		pairs = append(pairs, seedPair{raw, "", false, "long-misordered-marks"})
		if c.Thorough {
			pairs = append(pairs, seedPair{"abandon", raw, false, "long-misordered-marks"})
		}
	}
	for _, k := range []int{1, 2, 29, 30, 31, 32, 64} {
		s := "a" + strings.Repeat("\u0301", k)
		pairs = append(pairs, seedPair{s, "", true, "mark-run-mnemonic"}, seedPair{"x", s, true, "mark-run-passphrase"})
	}
	// the three vectors' shape: a real sentence with a passphrase
	pairs = append(pairs, seedPair{c.M.Encode(make([]byte, 16), 2), "TREZOR", true, "vector"},
		seedPair{c.M.Encode(bytes.Repeat([]byte{0x80}, 32), ref.Japanese), "\u30e1\u30fc\u30c8\u30eb\u30ac\u30a6\u30a9\u30ec\u30c3\u30c8\u3000\uff11\uff12\uff13", true, "vector"})

	// valid sentences with stray white space: never trimmed, tidied or validated
	for l := 0; l < ref.NLang; l++ {
		v := c.M.Encode(bytes.Repeat([]byte{byte(0x10 + 11*l)}, 16+4*(l%5)), l)
		for _, w := range []string{" " + v, v + " ", v + "\n", "\t" + v, strings.Replace(v, ref.Sep(l), ref.Sep(l)+ref.Sep(l), 1), "\u3000" + v, v + "\u00a0", upperFirst(v)} {
			pairs = append(pairs, seedPair{w, "", false, "valid-sentence-with-stray-space"})
		}
		pairs = append(pairs, seedPair{v, " ", false, "valid-sentence-with-stray-space"}, seedPair{v, "", true, "valid-sentence"})
	}
	// white-space, control and invisible characters at the edges and inside either argument: nothing
	// is trimmed, collapsed or cut at a line end
	for _, x := range []string{" ", "\t", "\n", "\r", "\r\n", "\v", "\f", "\x00", "\x1b", "\x7f", "\u0085", "\u00a0", "\u2028", "\u2029", "\u3000", "\u200b", "\u200d", "\ufeff", "\u00ad"} {
		for _, core := range []string{"", "TREZOR", "p\u00e4ss w\u00f6rd", c.M.Encode(make([]byte, 16), 2)} {
			for _, w := range []string{x + core, core + x, x + core + x, core + x + x, core + x + core} {
				pairs = append(pairs, seedPair{"abandon ability", w, false, "edge-character-passphrase"}, seedPair{w, "TREZOR", false, "edge-character-mnemonic"})
			}
		}
	}
	// every assigned code point that NFKD changes, alone, as either argument
	dec := c.decompSlice()
	for i, d := range dec {
		pairs = append(pairs, seedPair{"abandon", d.S, false, "single-code-point-passphrase"})
		if c.Thorough || i%2 == 0 {
			pairs = append(pairs, seedPair{d.S, "", false, "single-code-point-mnemonic"})
		}
	}

	// NFKD of every distinct string from the independent oracle
	uniq := map[string]int{}
	var strs []string
	for _, q := range pairs {
		for _, s := range []string{q.m, q.p} {
			if _, ok := uniq[s]; !ok {
				uniq[s] = len(strs)
				strs = append(strs, s)
			}
		}
	}
	nf := c.pyNorm("NFKD", strs)
	nfkd := func(s string) string { return nf[uniq[s]] }

	// cross-check the hand-written PBKDF2 against OpenSSL on a fixed subset
	var pws, salts [][]byte
	for i := 0; i < len(pairs); i += len(pairs)/48 + 1 {
		pws = append(pws, []byte(nfkd(pairs[i].m)))
		salts = append(salts, []byte("mnemonic"+nfkd(pairs[i].p)))
	}
	pws = append(pws, bytes.Repeat([]byte("k"), 129), nil)
	salts = append(salts, []byte("mnemonic"), []byte("mnemonic"))
	py := c.pyPBKDF2(pws, salts)
	for i := range pws {
		if !bytes.Equal(py[i], ref.PBKDF2SHA512(pws[i], salts[i], 2048, 64)) {
			c.Fatal("reference PBKDF2 disagrees with OpenSSL for password %x salt %x", pws[i], salts[i])
		}
	}
	c.SetExtra("pbkdf2_reference_crosschecked_against_openssl", len(pws))

	ds := newDistinctSet()
	classes := map[string]int64{}
	for _, q := range pairs {
		classes[q.class]++
	}
	Par(c.NCPU, func(emit func(seedPair)) {
		for _, q := range pairs {
			emit(q)
		}
	}, func(q seedPair) {
		if !ds.Add(q.m, q.p) {
			return
		}
		want := ref.Seed(nfkd(q.m), nfkd(q.p))
		var got []byte
		pn := call(func() { got = bip39.MnemonicToSeed(q.m, q.p) })
		c.Eval(1)
		key := fmt.Sprintf("seed:%s:%s", hs(q.m), hs(q.p))
		cs := map[string]interface{}{"kind": "seed", "mnemonic": hs(q.m), "passphrase": hs(q.p), "expected": hx(want), "class": q.class}
		if pn != "" || !bytes.Equal(got, want) {
			c.Violate(key, fmt.Sprintf("MnemonicToSeed(%+q, %+q) = %x (panic=%q), PBKDF2 over NFKD forms gives %x", q.m, q.p, got, pn, want), cs)
			return
		}
	})
	// argument-boundary ambiguity, sequentially: pairs of calls whose arguments concatenate to the
	// same text (with and without the "mnemonic" salt prefix in between) must still give the
	// seeds of their own arguments, in both orders (a memo keyed by a delimiter-less join shows here)
	var nAmb int64
	ambig := func(m1, p1, m2, p2 string) {
		for _, q := range [][2]string{{m1, p1}, {m2, p2}, {m1, p1}} {
			got := bip39.MnemonicToSeed(q[0], q[1])
			c.Eval(1)
			nAmb++
			want := ref.Seed(nfkdOf(c, q[0]), nfkdOf(c, q[1]))
			if !bytes.Equal(got, want) {
				c.Violate(fmt.Sprintf("seedseq:%s:%s:%s:%s", hs(m1), hs(p1), hs(m2), hs(p2)),
					fmt.Sprintf("in the call sequence (%+q,%+q), (%+q,%+q), (%+q,%+q): MnemonicToSeed(%+q,%+q) = %x, PBKDF2 gives %x", m1, p1, m2, p2, m1, p1, q[0], q[1], got, want),
					map[string]interface{}{"kind": "seedseq", "calls": []string{hs(m1), hs(p1), hs(m2), hs(p2), hs(m1), hs(p1)}})
				return
			}
		}
	}
	for _, x := range []string{"X", "abandon ability", "", "\u00e9"} {
		for _, y := range []string{"Y", "", "TREZOR", "\u3042"} {
			ambig(x, "mnemonic"+y, x+"mnemonic", y)
			ambig(x+"mnemonic", y, x, "mnemonic"+y)
			ambig(x+"ab", "c"+y, x+"a", "bc"+y)
			ambig(x, y, x+y, "")
			ambig(x, y, "", x+y)
			ambig(x, y, y, x)
		}
	}
	c.AddScope("argument-boundary ambiguity sequences (sequential)", nAmb, true, "")
	// freshness, sequentially (no other call in between): the second of two identical
	// calls must not be affected by overwriting the first result, nor share its memory;
	// also with one different call in between
	var nFresh int64
	var prevPair *seedPair
	for i := range pairs {
		q := pairs[i]
		if !q.fresh || (!c.Thorough && nFresh >= 150) {
			continue
		}
		nFresh++
		key := fmt.Sprintf("seed:%s:%s", hs(q.m), hs(q.p))
		cs := map[string]interface{}{"kind": "seed-fresh", "mnemonic": hs(q.m), "passphrase": hs(q.p)}
		first := bip39.MnemonicToSeed(q.m, q.p)
		keep := append([]byte(nil), first...)
		for k := range first {
			first[k] ^= 0xFF
		}
		again := bip39.MnemonicToSeed(q.m, q.p)
		c.Eval(2)
		if !bytes.Equal(again, keep) || (len(again) > 0 && len(first) > 0 && &again[0] == &first[0]) {
			c.Violate("fresh:"+key, fmt.Sprintf("MnemonicToSeed(%+q, %+q): a second identical call after the caller overwrote the first result gives %x, want %x (result not a fresh slice)", q.m, q.p, again, keep), cs)
		}
		if prevPair != nil {
			for k := range again {
				again[k] = 0
			}
			_ = bip39.MnemonicToSeed(prevPair.m, prevPair.p)
			third := bip39.MnemonicToSeed(q.m, q.p)
			c.Eval(2)
			if !bytes.Equal(third, keep) {
				c.Violate("fresh3:"+key, fmt.Sprintf("MnemonicToSeed(%+q, %+q): repeated after one other call and after the caller zeroed the earlier result gives %x, want %x", q.m, q.p, third, keep), cs)
			}
		}
		prevPair = &pairs[i]
	}
	c.AddScope("freshness: identical consecutive calls with the first result overwritten (sequential)", nFresh, true, "")
	c.SetExtra("pairs_by_class", classes)
	c.AddScope("seed pairs over the probe alphabet, ladders and mark runs", int64(len(pairs)), true, "")
	c.mu.Lock()
	c.res.Distinct = ds.Len()
	c.mu.Unlock()
	c.Sample(4, map[string]interface{}{"mnemonic": fmt.Sprintf("%+q", Sigma[6]+Sigma[8]), "passphrase": fmt.Sprintf("%+q", Sigma[7]), "nfkd_mnemonic": fmt.Sprintf("%+q", nfkd(Sigma[6]+Sigma[8]))})
	c.Sample(4, map[string]interface{}{"mnemonic": "'a' x 129", "passphrase": "", "why": "password longer than the 128-byte HMAC block"})
}

// nfkdOf asks the oracle for one string (used by the small sequential phases).
var nfkdCache = map[string]string{}

func nfkdOf(c *Ctx, s string) string {
	if v, ok := nfkdCache[s]; ok {
		return v
	}
	v := c.pyNorm("NFKD", []string{s})[0]
	nfkdCache[s] = v
	return v
}
