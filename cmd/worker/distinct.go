package main

import (
	"crypto/sha256"
	"encoding/binary"
	"sync"
)

// distinctSet counts distinct keys (by the first 8 bytes of SHA-256; a
// collision can only make the count smaller, i.e. conservative).
type distinctSet struct {
	mu   [256]sync.Mutex
	sets [256]map[uint64]struct{}
}

func newDistinctSet() *distinctSet {
	d := &distinctSet{}
	for i := range d.sets {
		d.sets[i] = map[uint64]struct{}{}
	}
	return d
}

// Add returns true if the key is new.
func (d *distinctSet) Add(parts ...string) bool {
	h := sha256.New()
	for _, p := range parts {
		h.Write([]byte(p))
		h.Write([]byte{0})
	}
	s := h.Sum(nil)
	k := binary.BigEndian.Uint64(s[:8])
	sh := int(s[8])
	d.mu[sh].Lock()
	_, dup := d.sets[sh][k]
	if !dup {
		d.sets[sh][k] = struct{}{}
	}
	d.mu[sh].Unlock()
	return !dup
}

func (d *distinctSet) Len() int64 {
	var n int64
	for i := range d.sets {
		d.mu[i].Lock()
		n += int64(len(d.sets[i]))
		d.mu[i].Unlock()
	}
	return n
}
