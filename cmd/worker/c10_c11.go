package main

import (
	"bytes"
	"fmt"
	"hash/fnv"
	"strings"

	bip39 "github.com/islishude/bip39"

	"verif/internal/ref"
)

func init() {
	registry["C10"] = runC10
	registry["C11"] = runC11
}

func classify(err error) string {
	switch {
	case err == nil:
		return ref.VValid
	case errorsIs(err, bip39.ErrWordLen):
		return ref.VCount
	case errorsIs(err, bip39.ErrChecksumIncorrect):
		return ref.VChecksum
	}
	return ref.VUnknown
}

func hash32(s string) uint32 {
	h := fnv.New32a()
	h.Write([]byte(s))
	return h.Sum32()
}

// spaceLike returns the code points (other than U+0020) whose NFKD is exactly
// U+0020, according to the independent oracle.
func (c *Ctx) spaceLike() []string {
	cands := []string{"\u00a0", "\u1680", "\u2000", "\u2001", "\u2002", "\u2003", "\u2004", "\u2005", "\u2006", "\u2007", "\u2008", "\u2009", "\u200a", "\u202f", "\u205f", "\u3000", "\u180e", "\u200b"}
	nf := c.pyNorm("NFKD", cands)
	var out []string
	for i, s := range cands {
		if nf[i] == " " {
			out = append(out, s)
		}
	}
	return out
}

// coverSentences returns, for language l, reference-valid 24-word sentences
// (as index lists) that together contain every list word at least once.
func coverSentences(m *ref.Model, l int) [][]string {
	var out [][]string
	for start := 0; start < 2048; start += 23 {
		e := make([]byte, 32)
		for p := 0; p < 23; p++ {
			setWindow(e, p, (start+p)%2048)
		}
		e[31] = byte(start) // bits 253..255 belong to the last word together with the checksum
		out = append(out, m.Words(e, l))
	}
	return out
}

func runC10(c *Ctx) {
	c.res.Rule = "CheckMnemonic on pairs of strings with equal CPython-NFKD: (a) every list word of every language in each alternative spelling (NFC, NFD, NFKC, full-width, every single-code-point compatibility/precomposed replacement of any substring; quick: a 1/16 slice of the latter) placed inside a reference-valid sentence (quick: one word count per word, thorough: all five) and inside a checksum-defective sentence; (b) whole 24-word cover sentences (every list word) and sentences of the longest/shortest words at every count, respelled in NFC/NFD/NFKC/full-width; (c) valid sentences joined by every code point whose NFKD is U+0020; (d) all strings of Sigma^<=3 in their four normal forms x 3 languages. Oracle: identical verdict class for both members of a pair, and reference-valid sentences accepted in every spelling. distinct_nontrivial = distinct non-canonical spellings (strings differing from their canonical partner) Cold-start phase: for each of the ten languages a fresh child process whose first library call is an encoding (resp. a validation) in that language, followed by all ten languages, compared with the reference (what depends on which language - or the zero value of Language - came first)."
	defer c.coldStartPhase("equiv", "canon")
	c.Assume("CPython unicodedata (Unicode 14) decides which strings have equal NFKD forms; only assigned code points are used")
	ds := newDistinctSet()
	type job struct {
		l int
		v Variant
	}
	counts := []int{12, 15, 18, 21, 24}
	tagCount := map[string]int64{}
	var allJobs []job
	for l := 0; l < ref.NLang; l++ {
		for _, v := range c.loadVariants(l) {
			if !c.Thorough && strings.HasPrefix(v.Tag, "V") && hash32(fmt.Sprint(l, v.Index, v.Tag))%16 != 0 {
				continue
			}
			t := v.Tag
			if strings.HasPrefix(t, "V") {
				t = "single-code-point"
			}
			tagCount[t]++
			allJobs = append(allJobs, job{l, v})
		}
	}
	comparePair := func(l int, canon, alt, why string) {
		if !ds.Add(alt, string(rune(l))) {
			return
		}
		e1, p1 := c.validate(canon, Langs[l])
		e2, p2 := c.validate(alt, Langs[l])
		if p1 != "" || p2 != "" {
			return
		}
		if classify(e1) != classify(e2) {
			c.Violate(fmt.Sprintf("pair:%s:%s:%d", hs(canon), hs(alt), l),
				fmt.Sprintf("%s: %+q gives %v but the NFKD-equal spelling %+q gives %v (%s)", why, canon, e1, alt, e2, ref.LangNames[l]),
				map[string]interface{}{"kind": "checkpair", "a": hs(canon), "b": hs(alt), "lang": l})
		}
	}
	mustAccept := func(l int, alt, why string) {
		e, p := c.validate(alt, Langs[l])
		if p == "" && e != nil {
			c.Violate(fmt.Sprintf("check:%s:%d", hs(alt), l),
				fmt.Sprintf("%s: valid mnemonic rejected in spelling %+q: %v (%s)", why, alt, e, ref.LangNames[l]),
				map[string]interface{}{"kind": "check", "sentence": hs(alt), "lang": l, "expect": "valid"})
		}
	}
	Par(c.NCPU, func(emit func(job)) {
		for _, j := range allJobs {
			emit(j)
		}
	}, func(j job) {
		l, v := j.l, j.v
		cs := counts[v.Index%5 : v.Index%5+1]
		if c.Thorough {
			cs = counts
		}
		for _, n := range cs {
			L := n / 3 * 4
			p := int(hash32(v.Tag+fmt.Sprint(v.Index))) % (n - 1)
			if p < 0 {
				p = -p
			}
			e := make([]byte, L)
			e[L-1] = byte(v.Index)
			setWindow(e, p, v.Index)
			words := c.M.Words(e, l)
			canon := strings.Join(words, " ")
			altw := append([]string(nil), words...)
			altw[p] = v.S
			for _, sep := range []string{" ", "\u3000"} {
				alt := strings.Join(altw, sep)
				comparePair(l, canon, alt, "word spelling "+v.Tag)
				mustAccept(l, alt, "word spelling "+v.Tag)
			}
			// same spelling inside a checksum-defective sentence
			bad := append([]string(nil), words...)
			bad[n-1] = c.M.List[l][(c.M.Dict[l][words[n-1]]+1)%2048]
			badAlt := append([]string(nil), bad...)
			badAlt[p] = v.S
			comparePair(l, strings.Join(bad, " "), strings.Join(badAlt, " "), "word spelling "+v.Tag+" (checksum-defective sentence)")
		}
	})
	c.SetExtra("word_spellings_by_kind", tagCount)
	c.AddScope("alternative spellings of list words inside sentences", int64(len(allJobs)), true, "quick tier takes a deterministic 1/16 slice of the single-code-point replacements and one word count per word")

	// (b) whole sentences respelled
	var whole []string
	type ws struct {
		l     int
		canon string
	}
	var wsl []ws
	for l := 0; l < ref.NLang; l++ {
		for _, w := range coverSentences(c.M, l) {
			s := strings.Join(w, " ")
			wsl = append(wsl, ws{l, s})
			whole = append(whole, s)
		}
	}
	// plus the sentences made of the longest / shortest words (size limits measured before or after
	// normalisation bite here first)
	for l := 0; l < ref.NLang; l++ {
		for _, w := range extremeSentences(c.M, l) {
			s := strings.Join(w, " ")
			wsl = append(wsl, ws{l, s})
			whole = append(whole, s)
		}
	}
	nfc, nfd, nfkc := c.pyNorm("NFC", whole), c.pyNorm("NFD", whole), c.pyNorm("NFKC", whole)
	type wjob struct {
		l          int
		canon, alt string
		why        string
	}
	Par(c.NCPU, func(emit func(wjob)) {
		for i, w := range wsl {
			emit(wjob{w.l, w.canon, nfc[i], "whole sentence NFC"})
			emit(wjob{w.l, w.canon, nfd[i], "whole sentence NFD"})
			emit(wjob{w.l, w.canon, nfkc[i], "whole sentence NFKC"})
			emit(wjob{w.l, w.canon, strings.Replace(nfc[i], " ", "\u3000", -1), "whole sentence NFC, U+3000"})
			ascii := true
			for _, r := range w.canon {
				if r > 0x7E {
					ascii = false
				}
			}
			if ascii {
				fw := strings.Map(func(r rune) rune {
					if r == ' ' {
						return 0x3000
					}
					return r + 0xFEE0
				}, w.canon)
				emit(wjob{w.l, w.canon, fw, "whole sentence full-width"})
			}
		}
	}, func(j wjob) {
		if j.alt == j.canon {
			return
		}
		comparePair(j.l, j.canon, j.alt, j.why)
		mustAccept(j.l, j.alt, j.why)
	})
	c.AddScope("24-word cover sentences (every list word) respelled as a whole", int64(len(wsl)), true, "")

	// (c) separators
	seps := c.spaceLike()
	c.SetExtra("separators_with_nfkd_u0020", fmt.Sprintf("%+q", seps))
	for l := 0; l < ref.NLang; l++ {
		for _, n := range counts {
			words := c.M.Words(bytes.Repeat([]byte{byte(0x31 * (l + 1))}, n/3*4), l)
			canon := strings.Join(words, " ")
			for _, sp := range seps {
				alt := strings.Join(words, sp)
				comparePair(l, canon, alt, fmt.Sprintf("separator %+q", sp))
				mustAccept(l, alt, fmt.Sprintf("separator %+q", sp))
				mixed := strings.Replace(canon, " ", sp, 1)
				comparePair(l, canon, mixed, fmt.Sprintf("one separator %+q", sp))
			}
		}
	}
	c.AddScope("valid sentences x 5 counts x 10 languages joined by each NFKD-to-space code point", int64(len(seps)*50), true, "")

	// (d) arbitrary probe strings in their normal forms
	s3 := sigmaStrings(3)
	f1, f2, f3, f4 := c.pyNorm("NFC", s3), c.pyNorm("NFD", s3), c.pyNorm("NFKC", s3), c.pyNorm("NFKD", s3)
	type sj struct{ i int }
	Par(c.NCPU, func(emit func(sj)) {
		for i := range s3 {
			emit(sj{i})
		}
	}, func(j sj) {
		for _, l := range []int{2, 5, 6} {
			for _, alt := range []string{f1[j.i], f2[j.i], f3[j.i], f4[j.i]} {
				if alt != s3[j.i] {
					// NFC/NFD keep compatibility characters: compare only strings with equal NFKD
					comparePair(l, s3[j.i], alt, "probe string vs normal form")
				}
			}
		}
	})
	c.AddScope("Sigma^<=3 probe strings vs their NFC/NFD/NFKC/NFKD forms x 3 languages", int64(len(s3)), true, "")
	c.mu.Lock()
	c.res.Distinct = ds.Len()
	c.mu.Unlock()
	if len(allJobs) > 0 {
		j := allJobs[len(allJobs)/2]
		c.Sample(3, map[string]interface{}{"lang": ref.LangNames[j.l], "word": c.M.List[j.l][j.v.Index], "spelling": fmt.Sprintf("%+q", j.v.S), "kind": j.v.Tag})
	}
	c.Sample(3, map[string]interface{}{"pair": []string{fmt.Sprintf("%+q", wsl[300].canon), fmt.Sprintf("%+q", nfc[300])}, "kind": "whole sentence NFC"})
}

func runC11(c *Ctx) {
	c.res.Rule = "MnemonicToSeed on pairs with equal CPython-NFKD components: per language the 24-word cover sentences (every list word) in NFC, NFD, NFKC, full-width and with U+3000 separators vs the canonical NFKD/U+0020 spelling; (thorough) every single-code-point respelling of every list word packed 24 per sentence; passphrases Sigma^<=2 in NFC/NFD/NFKC/NFKD; every assigned code point whose NFKD differs from itself vs its NFKD form, alone, as passphrase and as mnemonic (quick: 1/2 and 1/4 slices; Hangul every 97th); long mark-run pairs. Oracle: equal 64 bytes within each pair and equal to the reference PBKDF2 of the NFKD spelling. distinct_nontrivial = distinct non-canonical (mnemonic, passphrase) spellings"
	c.Assume("CPython unicodedata (Unicode 14) decides which strings have equal NFKD forms")
	type pj struct {
		m1, p1, m2, p2 string
		why            string
	}
	var jobs []pj
	var whole []string
	var wl []int
	for l := 0; l < ref.NLang; l++ {
		for _, w := range coverSentences(c.M, l) {
			whole = append(whole, strings.Join(w, " "))
			wl = append(wl, l)
		}
	}
	nfc, nfd, nfkc := c.pyNorm("NFC", whole), c.pyNorm("NFD", whole), c.pyNorm("NFKC", whole)
	for i, s := range whole {
		pass := ""
		if i%3 == 1 {
			pass = "TREZOR"
		}
		jobs = append(jobs, pj{s, pass, strings.Replace(s, " ", "\u3000", -1), pass, "U+3000 separators"})
		for k, alt := range []string{nfc[i], nfd[i], nfkc[i]} {
			if alt != s {
				jobs = append(jobs, pj{s, pass, alt, pass, "whole sentence " + []string{"NFC", "NFD", "NFKC"}[k]})
				if k == 0 {
					jobs = append(jobs, pj{s, pass, strings.Replace(alt, " ", "\u3000", -1), pass, "whole sentence NFC + U+3000"})
				}
			}
		}
		ascii := true
		for _, r := range s {
			if r > 0x7E {
				ascii = false
			}
		}
		if ascii && (c.Thorough || i%4 == 0) {
			fw := strings.Map(func(r rune) rune {
				if r == ' ' {
					return 0x3000
				}
				return r + 0xFEE0
			}, s)
			jobs = append(jobs, pj{s, pass, fw, pass, "whole sentence full-width"})
		}
	}
	nWhole := len(jobs)
	if c.Thorough {
		for l := 0; l < ref.NLang; l++ {
			vs := c.loadVariants(l)
			for i := 0; i < len(vs); i += 24 {
				var canon, alt []string
				for k := i; k < i+24 && k < len(vs); k++ {
					canon = append(canon, c.M.List[l][vs[k].Index])
					alt = append(alt, vs[k].S)
				}
				jobs = append(jobs, pj{strings.Join(canon, " "), "", strings.Join(alt, " "), "", "single-code-point respellings"})
			}
		}
	}
	nVar := len(jobs) - nWhole
	s2 := sigmaStrings(2)
	f1, f2, f3, f4 := c.pyNorm("NFC", s2), c.pyNorm("NFD", s2), c.pyNorm("NFKC", s2), c.pyNorm("NFKD", s2)
	for i, s := range s2 {
		// only forms with the same NFKD as s: NFKD itself and NFKC always; NFC/NFD too (they are
		// canonically equivalent to s, hence also compatibility equivalent)
		for k, alt := range []string{f1[i], f2[i], f3[i], f4[i]} {
			if alt != s {
				jobs = append(jobs, pj{"abandon ability", s, "abandon ability", alt, "passphrase " + []string{"NFC", "NFD", "NFKC", "NFKD"}[k]})
			}
		}
	}
	nPass := len(jobs) - nWhole - nVar
	// long texts (normalisation done in chunks or through bounded buffers): a precomposed sentence
	// repeated past 4 KiB and 64 KiB against its decomposed spelling
	for _, li := range []int{3, 5, 6} {
		base := strings.Join(coverSentences(c.M, li)[7], " ")
		pre := c.pyNorm("NFC", []string{base})[0]
		for _, reps := range []int{20, 300} {
			jobs = append(jobs, pj{strings.Repeat(base+" ", reps), "", strings.Repeat(pre+" ", reps), "", "long text mnemonic"},
				pj{"abandon", strings.Repeat(base+" ", reps), "abandon", strings.Repeat(pre+" ", reps), "long text passphrase"})
		}
	}
	// marks in non-canonical order throughout a long text, at every alignment modulo 5 bytes: a
	// normaliser that works in chunks (of any size up to 64 KiB) cuts between the two marks of some
	// unit for at least one alignment and then cannot reorder them
	for pad := 0; pad < 5; pad++ {
		raw := strings.Repeat("x", pad) + strings.Repeat("a\u0301\u0323", 14000)
		dec := strings.Repeat("x", pad) + strings.Repeat("a\u0323\u0301", 14000)
		jobs = append(jobs, pj{raw, "", dec, "", "long run of misordered marks (mnemonic)"})
		if c.Thorough || pad%2 == 0 {
			jobs = append(jobs, pj{"abandon", raw, "abandon", dec, "long run of misordered marks (passphrase)"})
		}
	}
	for _, k := range []int{5, 29, 30, 31} {
		a := "a" + strings.Repeat("\u0301", k) + "\u0323"
		b := "a" + "\u0323" + strings.Repeat("\u0301", k)
		jobs = append(jobs, pj{"x", a, "x", b, "mark run passphrase"}, pj{a, "", b, "", "mark run mnemonic"})
	}
	// every assigned code point that NFKD changes vs its NFKD form, alone
	nSingle := 0
	for i, d := range c.decompSlice() {
		if c.Thorough || i%2 == 1 {
			jobs = append(jobs, pj{"abandon", d.S, "abandon", d.NFKD, "single code point passphrase"})
			nSingle++
		}
		if c.Thorough || i%4 == 0 {
			jobs = append(jobs, pj{d.S, "", d.NFKD, "", "single code point mnemonic"})
			nSingle++
		}
	}
	// sanity: the oracle must agree that both members have equal NFKD
	var chk []string
	for _, j := range jobs {
		chk = append(chk, j.m1, j.m2, j.p1, j.p2)
	}
	nf := c.pyNorm("NFKD", chk)
	for i := range jobs {
		if nf[4*i] != nf[4*i+1] || nf[4*i+2] != nf[4*i+3] {
			c.Fatal("pair %d (%s) does not have equal NFKD forms under the oracle", i, jobs[i].why)
		}
	}
	ds := newDistinctSet()
	type ij struct{ i int }
	Par(c.NCPU, func(emit func(ij)) {
		for i := range jobs {
			emit(ij{i})
		}
	}, func(x ij) {
		j := jobs[x.i]
		if !ds.Add(j.m2, j.p2) {
			return
		}
		var s1, s2 []byte
		pn := call(func() { s1 = bip39.MnemonicToSeed(j.m1, j.p1); s2 = bip39.MnemonicToSeed(j.m2, j.p2) })
		c.Eval(2)
		want := ref.Seed(nf[4*x.i], nf[4*x.i+2])
		if pn != "" || !bytes.Equal(s1, s2) {
			c.Violate(fmt.Sprintf("seedpair:%s:%s:%s:%s", hs(j.m1), hs(j.p1), hs(j.m2), hs(j.p2)),
				fmt.Sprintf("%s: MnemonicToSeed(%+q,%+q)=%x but the NFKD-equal spelling (%+q,%+q) gives %x (panic=%q)", j.why, j.m1, j.p1, s1, j.m2, j.p2, s2, pn),
				map[string]interface{}{"kind": "seedpair", "m1": hs(j.m1), "p1": hs(j.p1), "m2": hs(j.m2), "p2": hs(j.p2)})
		} else if !bytes.Equal(s2, want) {
			c.Violate(fmt.Sprintf("seed:%s:%s", hs(j.m2), hs(j.p2)),
				fmt.Sprintf("%s: both spellings give %x, reference PBKDF2 of the NFKD spelling gives %x", j.why, s2, want),
				map[string]interface{}{"kind": "seed", "mnemonic": hs(j.m2), "passphrase": hs(j.p2), "expected": hx(want)})
		}
	})
	c.SetExtra("pairs", map[string]int{"whole_sentences": nWhole, "single_code_point_sentences": nVar, "passphrase_forms": nPass, "mark_runs": 8, "single_code_points": nSingle})
	c.AddScope("cover sentences x forms, passphrase forms, mark runs", int64(len(jobs)), true, "single-code-point respellings only in the thorough tier")
	c.mu.Lock()
	c.res.Distinct = ds.Len()
	c.mu.Unlock()
	c.Sample(3, map[string]interface{}{"mnemonic_a": fmt.Sprintf("%+q", jobs[0].m1), "mnemonic_b": fmt.Sprintf("%+q", jobs[0].m2), "kind": jobs[0].why})
	c.Sample(3, map[string]interface{}{"passphrase_a": fmt.Sprintf("%+q", jobs[nWhole+nVar+3].p1), "passphrase_b": fmt.Sprintf("%+q", jobs[nWhole+nVar+3].p2), "kind": jobs[nWhole+nVar+3].why})
}
