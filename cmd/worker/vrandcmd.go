package main

import (
	"bytes"
	"encoding/json"
	"fmt"
	"os"
	"strconv"
	"strings"

	bip39 "github.com/islishude/bip39"
	"verifshim/vrand"

	"verif/internal/ref"
)

func init() { subcommands["vrand"] = vrandMain }

type vrandCall struct {
	Op       string `json:"op"`
	Mnemonic string `json:"mnemonic"`
	Err      string `json:"err"`
	Offset   int    `json:"offset"` // where the decoded entropy occurs in the stream; -1 = nowhere
	Len      int    `json:"len"`
	Problem  string `json:"problem"`
}

type vrandOut struct {
	SourceIsStandInAtEnd bool        `json:"source_is_stand_in_at_end"`
	SourceIsStandIn      bool        `json:"source_is_stand_in"`
	Calls                []vrandCall `json:"calls"`
	Delivered            int         `json:"delivered"`
}

// vrandMain: worker -prop vrand "n:lang,n:lang,..." in a build where the
// package's import of crypto/rand is redirected to verifshim/vrand. Every call
// uses the package's default, unswapped source.
func vrandMain(args []string) int {
	verif := "/verif"
	if v := os.Getenv("VERIF_DIR"); v != "" {
		verif = v
	}
	m, err := ref.Load(verif + "/golden")
	if err != nil {
		fmt.Fprintln(os.Stderr, err)
		return 2
	}
	var out vrandOut
	probe := &countingReader{}
	prev := bip39.VerifSwapRandSource(probe)
	bip39.VerifSwapRandSource(prev)
	out.SourceIsStandIn = prev == vrand.DefaultReader()
	var ops []string
	if len(args) > 0 && args[0] != "" {
		ops = strings.Split(args[0], ",")
	}
	if len(args) > 1 {
		// the stand-in for the OS generator goes down for good after this many bytes
		if k, err := strconv.Atoi(args[1]); err == nil && k >= 0 {
			vrand.SetFailAt(k)
		}
	}
	type iv struct{ a, b int }
	var used []iv
	var stream []byte
	for _, op := range ops {
		p := strings.Split(op, ":")
		n, _ := strconv.Atoi(p[0])
		l, _ := strconv.Atoi(p[1])
		c := vrandCall{Op: op, Offset: -1}
		var s string
		var e error
		pn := call(func() { s, e = bip39.NewMnemonic(n, Langs[l]) })
		c.Mnemonic = s
		if e != nil {
			c.Err = e.Error()
		}
		switch {
		case pn != "":
			c.Problem = "panic: " + pn
		case (e != nil) != (s == ""):
			c.Problem = fmt.Sprintf("NewMnemonic returned both or neither of a mnemonic and an error: (%q, %v)", s, e)
		case e != nil && vrand.Down():
			// the source failed: failing closed is the required behaviour
		case e != nil:
			c.Problem = fmt.Sprintf("the default source did not fail, yet NewMnemonic returned (%q, %v)", s, e)
		default:
			words := strings.Split(s, ref.Sep(l))
			ent, cs, bad := m.Decode(words, l)
			if len(words) != n || bad >= 0 || !ref.ChecksumOK(ent, cs) {
				c.Problem = "result is not a valid BIP39 sentence of the requested size"
				break
			}
			c.Len = len(ent)
			del := vrand.Delivered()
			for i := len(stream); i < del; i++ {
				stream = append(stream, vrand.ByteAt(i))
			}
			// look near the end first (the usual place), then everywhere
			from := len(stream) - 4096
			if from < 0 {
				from = 0
			}
			c.Offset = bytes.Index(stream[from:], ent)
			if c.Offset >= 0 {
				c.Offset += from
			} else {
				c.Offset = bytes.Index(stream, ent)
			}
			if c.Offset < 0 {
				c.Problem = fmt.Sprintf("the entropy %x of the result occurs nowhere in the %d bytes the default source delivered: other data was mixed in or substituted", ent, del)
				break
			}
			for _, u := range used {
				if c.Offset < u.b && u.a < c.Offset+c.Len {
					c.Problem = fmt.Sprintf("entropy bytes [%d,%d) of the source stream were already used by an earlier mnemonic ([%d,%d)): randomness reused", c.Offset, c.Offset+c.Len, u.a, u.b)
				}
			}
			used = append(used, iv{c.Offset, c.Offset + c.Len})
		}
		out.Calls = append(out.Calls, c)
	}
	out.Delivered = vrand.Delivered()
	probe2 := &countingReader{}
	prev2 := bip39.VerifSwapRandSource(probe2)
	bip39.VerifSwapRandSource(prev2)
	out.SourceIsStandInAtEnd = prev2 == vrand.DefaultReader()
	data, _ := json.Marshal(&out)
	emitResult(data)
	return 0
}
