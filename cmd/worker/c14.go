package main

import (
	"bytes"
	"fmt"
	"io"
	"strings"
	"sync"
	"sync/atomic"
	"time"

	bip39 "github.com/islishude/bip39"

	"verif/internal/ref"
)

func init() { registry["C14"] = runC14 }

// hangDeadline is deliberately enormous compared with the cost of any call
// made here (microseconds to a few hundred milliseconds).
const hangDeadline = 180 * time.Second

type inflight struct {
	start time.Time
	key   string
	what  string
	cs    map[string]interface{}
}

type sentInflight struct {
	start time.Time
	sc    SCase
}

// sentSlots holds the sentence-scope cases that are being evaluated right now.
var sentSlots [256]atomic.Value

type watchdog struct {
	mu    sync.Mutex
	calls map[int64]*inflight
	next  int64
	hung  int32
}

func (w *watchdog) begin(key, what string, cs map[string]interface{}) int64 {
	w.mu.Lock()
	w.next++
	id := w.next
	w.calls[id] = &inflight{time.Now(), key, what, cs}
	w.mu.Unlock()
	return id
}

func (w *watchdog) end(id int64) {
	w.mu.Lock()
	delete(w.calls, id)
	w.mu.Unlock()
}

func runC14(c *Ctx) {
	c.res.Rule = "every exported function on: Language values [-2^17,2^17] + int boundaries (String) and a 64-value subset x all other functions; all byte strings of length <=3 over a 12-byte alphabet incl. ill-formed UTF-8 (CheckMnemonic/IsMnemonicValid x 12 language values; MnemonicToSeed for (<=2,<=1) and (<=1,<=2) byte pairs); every 2-byte sequence as one token of an otherwise valid sentence; unknown tokens of every byte length 1..100 over seven rune shapes (cut at arbitrary byte boundaries); 0..60 list words joined by every two-block pattern of 6 separators; sizes 0,1,2^10,2^20,2^24 of 'a', U+0301, 0xFF and (<=2^20) U+0020; nil and every entropy length 0..4096; every word count of C09 with a working and a failing source; every case of the sentence mutation scopes of C03/C15 (all last words, substitutions, transpositions, foreign words, every list word of every language in every damaged spelling incl. all proper prefixes and suffixes, separator damage). Oracle: the call returns; a recovered panic or a call exceeding a 180 s deadline is a violation. distinct_nontrivial = distinct (function, argument) cases"
	c.Assume("hang = a single call not returning within 180 s (calls cost microseconds to ~1 s)")
	wd := &watchdog{calls: map[int64]*inflight{}}
	stop := make(chan struct{})
	hungCh := make(chan struct{})
	go func() {
		t := time.NewTicker(time.Second)
		defer t.Stop()
		for {
			select {
			case <-stop:
				return
			case <-t.C:
				for i := range sentSlots {
					if f, _ := sentSlots[i].Load().(*sentInflight); f != nil && time.Since(f.start) > hangDeadline {
						if atomic.CompareAndSwapInt32(&wd.hung, 0, 1) {
							c.Violate(fmt.Sprintf("hang:check:%s:%d", hs(f.sc.S), f.sc.L), fmt.Sprintf("CheckMnemonic(%q, %s) did not return within %v (%s)", f.sc.S, ref.LangNames[f.sc.L], hangDeadline, f.sc.Class),
								map[string]interface{}{"kind": "check-returns", "sentence": hs(f.sc.S), "lang": f.sc.L, "class": f.sc.Class})
							close(hungCh)
						}
					}
				}
				wd.mu.Lock()
				for _, f := range wd.calls {
					if time.Since(f.start) > hangDeadline {
						if atomic.CompareAndSwapInt32(&wd.hung, 0, 1) {
							c.Violate("hang:"+f.key, fmt.Sprintf("%s did not return within %v", f.what, hangDeadline), f.cs)
							close(hungCh)
						}
					}
				}
				wd.mu.Unlock()
			}
		}
	}()
	ds := newDistinctSet()
	guard := func(key, what string, cs map[string]interface{}, f func()) {
		id := wd.begin(key, what, cs)
		p := call(f)
		wd.end(id)
		c.Eval(1)
		ds.Add(key)
		if p != "" {
			c.Violate("panic:"+key, fmt.Sprintf("%s panicked: %s", what, p), cs)
		}
	}
	done := make(chan struct{})
	go func() {
		defer close(done)
		c14body(c, guard)
	}()
	select {
	case <-done:
	case <-hungCh:
		c.AddScope("aborted after a hang was detected", 0, false, "remaining scopes not explored")
	}
	close(stop)
	c.mu.Lock()
	c.res.Distinct = ds.Len()
	c.mu.Unlock()
	c.Sample(5, map[string]interface{}{"call": "Language(-1).String()"})
	c.Sample(5, map[string]interface{}{"call": "CheckMnemonic(\"\\xff\\xc3\\x20\", Language(11))"})
	c.Sample(5, map[string]interface{}{"call": "MnemonicToSeed(U+0301 x 2^24, \"\")"})
	c.Sample(5, map[string]interface{}{"call": "NewMnemonicByEntropy(nil, Language(-9223372036854775808))"})
}

type failingReader struct{}

func (failingReader) Read(p []byte) (int, error) { return 0, io.ErrUnexpectedEOF }

func c14body(c *Ctx, guard func(key, what string, cs map[string]interface{}, f func())) {
	// 1. Language values
	lim := 1 << 17
	type rng struct{ lo, hi int }
	Par(c.NCPU, func(emit func(rng)) {
		// small ranges around zero first, so that the violations kept are the simplest ones
		for v := -64; v <= 64; v++ {
			emit(rng{v, v})
		}
		for lo := -lim; lo <= lim; lo += 4096 {
			hi := lo + 4095
			if hi > lim {
				hi = lim
			}
			emit(rng{lo, hi})
		}
		for _, v := range intBoundaries() {
			emit(rng{v, v})
		}
	}, func(r rng) {
		for v := r.lo; ; v++ {
			v := v
			guard(fmt.Sprintf("String:%d", v), fmt.Sprintf("Language(%d).String()", v), map[string]interface{}{"kind": "string", "value": v}, func() { _ = bip39.Language(v).String() })
			if v == r.hi {
				break
			}
		}
	})
	c.AddScope("Language.String on [-2^17,2^17] + int boundaries", int64(2*lim+1), true, "")
	var lsub []int
	for v := -12; v <= 20; v++ {
		lsub = append(lsub, v)
	}
	ib := intBoundaries()
	for i := 0; i < len(ib); i += len(ib)/31 + 1 {
		lsub = append(lsub, ib[i])
	}
	lsub = append(lsub, ib[0], ib[len(ib)-1], 100, 10000, -100, 255, 256, -256)
	valid := c.M.Encode(make([]byte, 16), 2)
	ent := bytes.Repeat([]byte{0x5A}, 20)
	for _, v := range lsub {
		lg := bip39.Language(v)
		cs := map[string]interface{}{"kind": "langcall", "value": v}
		guard(fmt.Sprintf("Check:lang:%d", v), fmt.Sprintf("CheckMnemonic(valid English, Language(%d))", v), cs, func() { _ = bip39.CheckMnemonic(valid, lg) })
		guard(fmt.Sprintf("IsValid:lang:%d", v), fmt.Sprintf("IsMnemonicValid(valid English, Language(%d))", v), cs, func() { _ = bip39.IsMnemonicValid(valid, lg) })
		guard(fmt.Sprintf("Check:junk:lang:%d", v), fmt.Sprintf("CheckMnemonic(junk, Language(%d))", v), cs, func() { _ = bip39.CheckMnemonic("zzz "+valid, lg) })
		guard(fmt.Sprintf("ByEntropy:lang:%d", v), fmt.Sprintf("NewMnemonicByEntropy(20 bytes, Language(%d))", v), cs, func() { _, _ = bip39.NewMnemonicByEntropy(ent, lg) })
		guard(fmt.Sprintf("ByEntropy:badlen:lang:%d", v), fmt.Sprintf("NewMnemonicByEntropy(3 bytes, Language(%d))", v), cs, func() { _, _ = bip39.NewMnemonicByEntropy(ent[:3], lg) })
		for _, n := range []int{12, 24, 13, 0, -1} {
			n := n
			guard(fmt.Sprintf("New:%d:lang:%d", n, v), fmt.Sprintf("NewMnemonic(%d, Language(%d))", n, v), cs, func() {
				prev := bip39.VerifSwapRandSource(&countingReader{})
				defer bip39.VerifSwapRandSource(prev)
				_, _ = bip39.NewMnemonic(n, lg)
			})
			guard(fmt.Sprintf("NewFail:%d:lang:%d", n, v), fmt.Sprintf("NewMnemonic(%d, Language(%d)) with failing source", n, v), cs, func() {
				prev := bip39.VerifSwapRandSource(failingReader{})
				defer bip39.VerifSwapRandSource(prev)
				_, _ = bip39.NewMnemonic(n, lg)
			})
		}
	}
	c.AddScope(fmt.Sprintf("%d Language values x CheckMnemonic/IsMnemonicValid/NewMnemonicByEntropy/NewMnemonic", len(lsub)), int64(len(lsub)), true, "")

	// 2. byte strings of length <= 3 over a 12-byte alphabet
	alpha := []byte{0x00, 0x20, 0x61, 0x7F, 0x80, 0xBF, 0xC3, 0xE3, 0xED, 0xF4, 0xFF, 0xA0}
	var strs3, strs2, strs1 []string
	var rec func(prefix []byte)
	rec = func(prefix []byte) {
		s := string(prefix)
		strs3 = append(strs3, s)
		if len(prefix) <= 2 {
			strs2 = append(strs2, s)
		}
		if len(prefix) <= 1 {
			strs1 = append(strs1, s)
		}
		if len(prefix) == 3 {
			return
		}
		for _, b := range alpha {
			rec(append(append([]byte(nil), prefix...), b))
		}
	}
	rec(nil)
	Par(c.NCPU, func(emit func(string)) {
		for _, s := range strs3 {
			emit(s)
		}
	}, func(s string) {
		for v := -1; v <= 10; v++ {
			lg := bip39.Language(v)
			cs := map[string]interface{}{"kind": "check", "sentence": hs(s), "langvalue": v, "lang": 0, "expect": "returns"}
			guard(fmt.Sprintf("Check:%s:%d", hs(s), v), fmt.Sprintf("CheckMnemonic(%q, Language(%d))", s, v), cs, func() { _ = bip39.CheckMnemonic(s, lg); _ = bip39.IsMnemonicValid(s, lg) })
		}
	})
	c.AddScope("byte strings len<=3 over 12 bytes x 12 language values (validation)", int64(len(strs3)*12), true, "")
	type pair struct{ m, p string }
	Par(c.NCPU, func(emit func(pair)) {
		for _, a := range strs2 {
			for _, b := range strs1 {
				emit(pair{a, b})
				if len(a) > 1 {
					emit(pair{b, a})
				}
			}
		}
	}, func(q pair) {
		cs := map[string]interface{}{"kind": "seed-returns", "mnemonic": hs(q.m), "passphrase": hs(q.p)}
		guard(fmt.Sprintf("Seed:%s:%s", hs(q.m), hs(q.p)), fmt.Sprintf("MnemonicToSeed(%q, %q)", q.m, q.p), cs, func() {
			if out := bip39.MnemonicToSeed(q.m, q.p); len(out) != 64 {
				panic(fmt.Sprintf("returned %d bytes", len(out)))
			}
		})
	})
	c.AddScope("MnemonicToSeed on byte-string pairs (<=2,<=1) and (<=1,<=2)", int64(len(strs2)*len(strs1)*2), true, "")

	// 3. every 2-byte sequence as one token of an otherwise valid sentence
	words := c.M.Words(make([]byte, 16), 2)
	Par(c.NCPU, func(emit func(int)) {
		for x := 0; x < 65536; x++ {
			emit(x)
		}
	}, func(x int) {
		tok := string([]byte{byte(x >> 8), byte(x)})
		t := append([]string(nil), words...)
		t[x%12] = tok
		s := strings.Join(t, " ")
		cs := map[string]interface{}{"kind": "check", "sentence": hs(s), "lang": 2, "expect": "returns"}
		guard(fmt.Sprintf("Check2:%04x", x), fmt.Sprintf("CheckMnemonic(sentence with token %x)", tok), cs, func() { _ = bip39.CheckMnemonic(s, bip39.English) })
	})
	c.AddScope("all 65536 two-byte tokens inside a 12-word sentence", 65536, true, "")

	// 3a. unknown tokens of every byte length 1..100 made of 1-, 2-, 3-, 4-byte runes and of stray
	// continuation bytes, at the first, a middle and the last position (error-message formatting
	// that cuts or scans a token must cope with any boundary)
	units := []string{"z", "\u00e9", "\u3042", "\U0001f600", "\x80", "\u3042\x80", "z\u0301"}
	type tj struct{ u, n, pos int }
	var ntj int64
	Par(c.NCPU, func(emit func(tj)) {
		for u := range units {
			for n := 1; n <= 100; n++ {
				for _, pos := range []int{0, 5, 11} {
					emit(tj{u, n, pos})
					ntj++
				}
			}
		}
	}, func(j tj) {
		tok := strings.Repeat(units[j.u], j.n/len(units[j.u])+1)[:j.n]
		for _, l := range []int{2, 5} {
			t := append([]string(nil), c.M.Words(make([]byte, 16), l)...)
			t[j.pos] = tok
			s := strings.Join(t, " ")
			cs := map[string]interface{}{"kind": "check", "sentence": hs(s), "lang": l, "expect": "returns"}
			guard(fmt.Sprintf("CheckTok:%d:%d:%d:%d", j.u, j.n, j.pos, l), fmt.Sprintf("CheckMnemonic(sentence whose token %d is %d bytes of %+q)", j.pos, j.n, units[j.u]), cs, func() { _ = bip39.CheckMnemonic(s, Langs[l]) })
		}
	})
	c.AddScope("unknown tokens of 1..100 bytes over 7 rune shapes x 3 positions x 2 languages", ntj, true, "")

	// 3b. k list words (k = 0..60) joined by every two-block separator pattern: the first j
	// separators are sep1, the others sep2
	seps := []string{" ", "\u3000", "\u00a0", "\t", "\u2003", "  "}
	type sj struct{ k, a, b int }
	var nsj int64
	Par(c.NCPU, func(emit func(sj)) {
		for k := 0; k <= 60; k++ {
			for a := range seps {
				for b := range seps {
					emit(sj{k, a, b})
					nsj++
				}
			}
		}
	}, func(j sj) {
		for _, l := range []int{2, 5} {
			// once with the first list word everywhere (index 0: all-zero bits) and once with words of
			// varied non-zero indices (index arithmetic on a miscounted sentence is invisible on zeros)
			for _, varied := range []bool{false, true} {
				for cut := 0; cut <= j.k-1 || cut == 0; cut++ {
					if j.a == j.b && cut > 0 {
						break
					}
					var b strings.Builder
					for i := 0; i < j.k; i++ {
						if i > 0 {
							if i-1 < cut {
								b.WriteString(seps[j.a])
							} else {
								b.WriteString(seps[j.b])
							}
						}
						idx := 0
						if varied {
							idx = (1 + i*331) % 2048
							if idx == 0 {
								idx = 2047
							}
						}
						b.WriteString(c.M.List[l][idx])
					}
					s := b.String()
					cs := map[string]interface{}{"kind": "check", "sentence": hs(s), "lang": l, "expect": "returns"}
					guard(fmt.Sprintf("CheckSep:%d:%d:%d:%d:%d:%v", j.k, j.a, j.b, cut, l, varied), fmt.Sprintf("CheckMnemonic(%d words, separators %q x%d then %q, %s)", j.k, seps[j.a], cut, seps[j.b], ref.LangNames[l]), cs, func() { _ = bip39.CheckMnemonic(s, Langs[l]) })
				}
			}
		}
	})
	c.AddScope("0..60 list words joined by two-block separator patterns over 6 separators x 2 languages", nsj, true, "")

	// 4. sizes
	type big struct {
		unit string
		n    int
	}
	var bigs []big
	for _, u := range []string{"a", "\u0301", "\xff", " ", "abandon ", "\u3000"} {
		for _, n := range []int{0, 1, 1 << 10, 1 << 20, 1 << 24} {
			if (u == " " || u == "abandon " || u == "\u3000") && n > 1<<20 {
				continue
			}
			if !c.Thorough && n > 1<<20 && u != "a" {
				continue
			}
			bigs = append(bigs, big{u, n})
		}
	}
	ParB(4, 1, func(emit func(big)) {
		for _, b := range bigs {
			emit(b)
		}
	}, func(b big) {
		s := strings.Repeat(b.unit, b.n)
		cs := map[string]interface{}{"kind": "big", "unit": hs(b.unit), "repeat": b.n}
		guard(fmt.Sprintf("CheckBig:%s:%d", hs(b.unit), b.n), fmt.Sprintf("CheckMnemonic(%q x %d)", b.unit, b.n), cs, func() { _ = bip39.CheckMnemonic(s, bip39.English); _ = bip39.IsMnemonicValid(s, bip39.Japanese) })
		guard(fmt.Sprintf("SeedBigM:%s:%d", hs(b.unit), b.n), fmt.Sprintf("MnemonicToSeed(%q x %d, \"\")", b.unit, b.n), cs, func() { _ = bip39.MnemonicToSeed(s, "") })
		guard(fmt.Sprintf("SeedBigP:%s:%d", hs(b.unit), b.n), fmt.Sprintf("MnemonicToSeed(\"x\", %q x %d)", b.unit, b.n), cs, func() { _ = bip39.MnemonicToSeed("x", s) })
	})
	c.AddScope("size ladder 0,1,2^10,2^20,2^24 of six units", int64(len(bigs)), true, "2^24 only for 'a' in the quick tier")

	// 5. entropy lengths and word counts
	Par(c.NCPU, func(emit func(int)) {
		for n := -1; n <= 4096; n++ {
			emit(n)
		}
	}, func(n int) {
		var e []byte
		if n >= 0 {
			e = make([]byte, n)
		}
		for _, l := range []int{2, 5, 9, 10, -1} {
			lg := bip39.Language(l)
			guard(fmt.Sprintf("ByEntropy:%d:%d", n, l), fmt.Sprintf("NewMnemonicByEntropy(len %d, Language(%d))", n, l), map[string]interface{}{"kind": "entlen", "len": n, "nil": n < 0, "fill": 0, "lang": 2}, func() { _, _ = bip39.NewMnemonicByEntropy(e, lg) })
		}
	})
	c.AddScope("NewMnemonicByEntropy nil + lengths 0..4096 x 5 language values", 4098*5, true, "")
	var cnts []int
	for n := -4096; n <= 4096; n++ {
		cnts = append(cnts, n)
	}
	cnts = append(cnts, intBoundaries()...)
	// extreme counts go through the sandboxed child (see C09): an out-of-memory death or a stall is
	// a failure to "return normally" just like a panic
	var bigc []countCall
	var small []int
	for _, n := range cnts {
		if n > 4096 || n < -4096 {
			bigc = append(bigc, countCall{N: n, L: 6})
		} else {
			small = append(small, n)
		}
	}
	for cc, r := range runCountSandbox(c, bigc) {
		c.Eval(1)
		if r.Died != "" || r.Panic != "" {
			c.Violate(fmt.Sprintf("panic:New:%d", cc.N), fmt.Sprintf("NewMnemonic(%d, Korean) did not return normally: %s%s", cc.N, r.Died, r.Panic),
				map[string]interface{}{"kind": "wordcount", "count": cc.N, "lang": 6})
		}
	}
	cnts = small
	for _, n := range cnts {
		n := n
		for _, fail := range []bool{false, true} {
			fail := fail
			guard(fmt.Sprintf("New:%d:%v", n, fail), fmt.Sprintf("NewMnemonic(%d) failing-source=%v", n, fail), map[string]interface{}{"kind": "wordcount", "count": n, "lang": 2, "failing": fail}, func() {
				var src io.Reader = &countingReader{}
				if fail {
					src = failingReader{}
				}
				prev := bip39.VerifSwapRandSource(src)
				defer bip39.VerifSwapRandSource(prev)
				_, _ = bip39.NewMnemonic(n, bip39.Korean)
			})
		}
	}
	c.AddScope("NewMnemonic counts [-4096,4096] + int boundaries x working/failing source", int64(2*len(cnts)), true, "")
	// 9. the sentence scopes of C03 / C15 (all last words, substitutions, transpositions, foreign and
	// damaged tokens, every list word in every damaged spelling incl. all its proper prefixes and
	// suffixes, separator damage, extreme lengths): those checks judge verdicts and leave a panic to
	// this one
	var nsc int64
	// in-flight cases are visible to the hang watchdog through a small table of slots (a mutex-
	// guarded map per case would dominate the cost of these microsecond calls)
	free := make(chan int, len(sentSlots))
	for i := range sentSlots {
		free <- i
	}
	c.forAllSentenceCases(func(sc SCase) {
		slot := <-free
		sentSlots[slot].Store(&sentInflight{time.Now(), sc})
		var pn string
		pn = call(func() { _ = bip39.CheckMnemonic(sc.S, Langs[sc.L]); _ = bip39.IsMnemonicValid(sc.S, Langs[sc.L]) })
		sentSlots[slot].Store((*sentInflight)(nil))
		free <- slot
		atomic.AddInt64(&nsc, 1)
		if pn != "" {
			c.Violate(fmt.Sprintf("panic:check:%s:%d", hs(sc.S), sc.L), fmt.Sprintf("CheckMnemonic(%q, %s) panicked: %s (%s)", sc.S, ref.LangNames[sc.L], pn, sc.Class),
				map[string]interface{}{"kind": "check-returns", "sentence": hs(sc.S), "lang": sc.L, "class": sc.Class})
		}
	})
	c.Eval(nsc)
	c.AddScope("sentence mutation scopes of C03/C15 (no panic)", nsc, true, "")
	_ = ref.NLang
}
