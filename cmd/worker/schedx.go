package main

import (
	"encoding/json"
	"fmt"
	"os"
	"reflect"
	"sort"
	"strconv"
	"strings"
	"verifshim/vsync"

	bip39 "github.com/islishude/bip39"
	"verifshim/vsched"

	"verif/internal/ref"
)

func init() { subcommands["schedx"] = schedxMain }

// stateSnapshot holds a shallow copy of every package-level variable taken at
// process start. Restoring it puts the package back to "not used yet"
// provided nothing reachable only through pointers was modified; that proviso
// is checked after every restore by comparing the deep fingerprint with the
// one of the untouched process (resetOK).
type stateSnapshot struct {
	vars    map[string]interface{}
	saved   map[string]reflect.Value
	fp0     string
	nHidden int // OnceFunc / OnceValue objects that existed when the snapshot was taken
}

func takeSnapshot() *stateSnapshot {
	s := &stateSnapshot{vars: bip39.VerifStateVars(), saved: map[string]reflect.Value{}}
	for n, p := range s.vars {
		v := reflect.ValueOf(p).Elem()
		c := reflect.New(v.Type()).Elem()
		c.Set(v)
		s.saved[n] = c
	}
	s.nHidden = len(vsync.Hidden())
	s.fp0, _, _ = fingerprint()
	return s
}

func (s *stateSnapshot) restore() bool {
	for n, p := range s.vars {
		reflect.ValueOf(p).Elem().Set(s.saved[n])
	}
	vsync.ResetHidden(s.nHidden)
	fp, _, _ := fingerprint()
	return fp == s.fp0
}

type xViolation struct {
	Choices string `json:"choices"`
	Cost    int    `json:"cost"`
	What    string `json:"what"`
}

type xOut struct {
	Scenario     string       `json:"scenario"`
	Executions   int64        `json:"executions"`
	Points       int64        `json:"points"`
	MaxPoints    int          `json:"max_points"`
	Interleaved  int64        `json:"interleaved"`
	Preempted    int64        `json:"preempted"`
	Outcomes     []string     `json:"distinct_outcomes"`
	Violations   []xViolation `json:"violations"`
	NViolations  int64        `json:"n_violations"`
	ResetFailed  bool         `json:"reset_failed"`
	Aborted      string       `json:"aborted"`
	Diverged     string       `json:"diverged"`
	BoundReached int          `json:"bound"`
	Sites        int          `json:"sites"`
	SampleTrace  []string     `json:"sample_trace"`
}

// schedxMain: worker -prop schedx <scenario> <bound> <K> <hb> <baseline.json>
// Explores every schedule of the scenario with at most <bound> preemptions
// inside this process, restoring the package state between executions.
func schedxMain(args []string) int {
	verif := "/verif"
	if v := os.Getenv("VERIF_DIR"); v != "" {
		verif = v
	}
	scenario := args[0]
	bound, _ := strconv.Atoi(args[1])
	k, _ := strconv.Atoi(args[2])
	hb := args[3] != "0"
	baseline := map[string]string{}
	if data, err := os.ReadFile(args[4]); err != nil || json.Unmarshal(data, &baseline) != nil {
		fmt.Fprintln(os.Stderr, "schedx: cannot read baseline", err)
		return 2
	}
	maxExec := int64(2000000)
	if len(args) > 5 {
		maxExec, _ = strconv.ParseInt(args[5], 10, 64)
	}
	m, err := ref.LoadLangs(verif+"/golden", langsOfOps(scenario))
	if err != nil {
		fmt.Fprintln(os.Stderr, err)
		return 2
	}
	snap := takeSnapshot()
	scen := parseScenario(scenario)
	out := xOut{Scenario: scenario, BoundReached: bound, Sites: vsched.NumSites(), Violations: []xViolation{}}
	outcomes := map[string]bool{}
	usesShared := strings.Contains(scenario, "NS:")

	runOne := func(prefix []int) (*vsched.Result, [][]string, string) {
		res := make([][]string, len(scen))
		runners := make([]*histRunner, len(scen))
		sr := &sharedReader{draws: map[int][]byte{}, who: vsched.Current}
		if usesShared {
			bip39.VerifSwapRandSource(sr)
		}
		bodies := make([]func(), len(scen))
		for i := range scen {
			i := i
			runners[i] = &histRunner{m: m}
			bodies[i] = func() {
				for _, op := range scen[i] {
					if strings.HasPrefix(op, "NS:") {
						res[i] = append(res[i], nsOp(m, sr, i, op))
					} else {
						res[i] = append(res[i], runners[i].exec(op))
					}
				}
			}
		}
		r := vsched.Run(bodies, vsched.Options{Prefix: prefix, K: k, HBDetector: hb})
		intact := ""
		if r.Deadlock == "" {
			for _, rn := range runners {
				for _, kp := range rn.keep {
					if string(kp.live()) != string(kp.copy) {
						intact = fmt.Sprintf("%s changed afterwards: was %x, now %x", kp.what, kp.copy, kp.live())
					}
				}
			}
		}
		return r, res, intact
	}

	stack := [][]int{nil}
	for len(stack) > 0 {
		prefix := stack[len(stack)-1]
		stack = stack[:len(stack)-1]
		if out.Executions >= maxExec {
			out.Aborted = fmt.Sprintf("execution cap %d reached", maxExec)
			break
		}
		r, res, intact := runOne(prefix)
		out.Executions++
		out.Points += int64(len(r.Points))
		if len(r.Points) > out.MaxPoints {
			out.MaxPoints = len(r.Points)
		}
		if r.BlockedTimes > 0 {
			out.Interleaved++
		}
		if r.Diverged != "" {
			// in one process a divergence means that the reset did not give back a cold state; the
			// driver repeats the scenario with one fresh process per execution (where a divergence
			// is a hard error)
			out.Diverged = fmt.Sprintf("[%s]: %s", joinInts(prefix), r.Diverged)
			out.ResetFailed = true
			break
		}
		choices := make([]int, len(r.Points))
		costBefore := make([]int, len(r.Points)+1)
		for i, p := range r.Points {
			choices[i] = p.Choice
			costBefore[i+1] = costBefore[i]
			if p.RunningEnabled && p.Choice != 0 {
				costBefore[i+1]++
			}
		}
		total := costBefore[len(r.Points)]
		if total > 0 {
			out.Preempted++
		}
		if out.Executions == 2 {
			for _, p := range r.Points {
				out.SampleTrace = append(out.SampleTrace, fmt.Sprintf("%v->%d %s", p.Enabled, p.Choice, p.What))
			}
		}
		var bad []string
		if r.Deadlock != "" {
			bad = append(bad, "deadlock: "+r.Deadlock)
		} else {
			for ti := range scen {
				for j, op := range scen[ti] {
					got := "<missing>"
					if j < len(res[ti]) {
						got = res[ti][j]
					}
					if want := baseline[op]; got != want {
						bad = append(bad, fmt.Sprintf("thread %d call %s returned %q, alone it returns %q", ti, op, clipStr(got), clipStr(want)))
					}
				}
			}
			if intact != "" {
				bad = append(bad, intact)
			}
		}
		for _, rc := range r.Races {
			bad = append(bad, fmt.Sprintf("data race on %s: %s / %s (%s)", rc.Var, rc.A, rc.B, rc.Detail))
		}
		outcomes[fmt.Sprint(res)] = true
		if len(bad) > 0 {
			out.NViolations++
			out.Violations = append(out.Violations, xViolation{joinInts(choices), total, strings.Join(bad, "; ")})
			sort.SliceStable(out.Violations, func(i, j int) bool { return out.Violations[i].Cost < out.Violations[j].Cost })
			if len(out.Violations) > 5 {
				out.Violations = out.Violations[:5]
			}
		}
		if r.Deadlock != "" {
			// parked goroutines cannot be reclaimed: let the driver continue this scenario with
			// one process per execution
			out.ResetFailed = true
			out.Aborted = "deadlocked execution: goroutines parked"
			break
		}
		for i := len(r.Points) - 1; i >= len(prefix); i-- {
			p := r.Points[i]
			cost := costBefore[i]
			if p.RunningEnabled {
				cost++
			}
			if cost > bound {
				continue
			}
			for alt := len(p.Enabled) - 1; alt >= 1; alt-- {
				np := append(append([]int(nil), choices[:i]...), alt)
				stack = append(stack, np)
			}
		}
		if !snap.restore() {
			out.ResetFailed = true
			out.Aborted = "package state could not be restored to its initial fingerprint (state reachable only through pointers was modified)"
			break
		}
		if out.Executions == 1 {
			// cold check: the default schedule, run once more after the reset, must show exactly the
			// same scheduling points and results; if not, the package keeps state the reset cannot
			// reach (closures, state behind func values) and later executions would not start cold
			r2, res2, _ := runOne(nil)
			if sigOf(r2) != sigOf(r) || fmt.Sprint(res2) != fmt.Sprint(res) || !snap.restore() {
				out.ResetFailed = true
				out.Aborted = "the default schedule does not repeat after a state reset: state outside the package-level variables"
				break
			}
		}
	}
	for o := range outcomes {
		out.Outcomes = append(out.Outcomes, clipStr(o))
	}
	sort.Strings(out.Outcomes)
	data, _ := json.Marshal(&out)
	emitResult(data)
	return 0
}

// sigOf is the sequence of scheduling points of one execution (who was enabled, where).
func sigOf(r *vsched.Result) string {
	var b strings.Builder
	for _, p := range r.Points {
		fmt.Fprintf(&b, "%v@%s;", p.Enabled, p.What)
	}
	return b.String() + r.Deadlock
}

func joinInts(c []int) string {
	s := make([]string, len(c))
	for i, x := range c {
		s[i] = strconv.Itoa(x)
	}
	return strings.Join(s, ",")
}

func clipStr(s string) string {
	if len(s) > 160 {
		return s[:100] + "..." + s[len(s)-40:]
	}
	return s
}
