package main

import (
	"bufio"
	"encoding/json"
	"errors"
	"fmt"
	"io"
	"math"
	"os"
	"os/exec"
	"sort"
	"strings"
	"sync/atomic"
	"time"

	bip39 "github.com/islishude/bip39"

	"verif/internal/ref"
)

func init() {
	registry["C09"] = runC09
	registry["C16"] = runC16
}

// countingReader delivers deterministic bytes and counts what it was asked.
type countingReader struct {
	calls, bytes int
	fail         error
}

// errReadBudget stops a caller that asks the harness source for an absurd amount of data (a size
// gate that lets a huge count through must show up as a failed call, not as a harness that tries to
// produce terabytes).
var errReadBudget = errors.New("verif: more than 1 MiB requested from the harness source")

func (r *countingReader) Read(p []byte) (int, error) {
	r.calls++
	if r.fail != nil {
		return 0, r.fail
	}
	if len(p) > 1<<20 || r.bytes > 1<<20 {
		return 0, errReadBudget
	}
	for i := range p {
		p[i] = byte(r.bytes*7 + 3)
		r.bytes++
	}
	return len(p), nil
}

// intBoundaries returns {0, +-2^k, +-2^k+-1 : k <= 63} that fit in int.
func intBoundaries() []int {
	set := map[int]bool{0: true, math.MaxInt: true, math.MinInt: true, math.MaxInt32: true, math.MinInt32: true}
	for k := uint(0); k <= 62; k++ {
		v := int(1) << k
		for _, d := range []int{-1, 0, 1} {
			set[v+d] = true
			set[-v+d] = true
		}
	}
	set[math.MaxInt-1] = true
	set[math.MinInt+1] = true
	// k*2^s + v: values on which a multiplication of the count by a small constant wraps
	// around into the accepted range
	for s := uint(31); s <= 63; s++ {
		for k := -7; k <= 7; k++ {
			if k == 0 {
				continue
			}
			base := int(int64(k) << s)
			for v := 0; v <= 40; v++ {
				set[base+v] = true
			}
		}
	}
	out := make([]int, 0, len(set))
	for v := range set {
		out = append(out, v)
	}
	sort.Ints(out)
	return out
}

func runC09(c *Ctx) {
	c.res.Rule = "NewMnemonicByEntropy for nil and every slice length 0..4096 plus 2^k, 2^k+-1, 2^k+valid, 3*2^k+valid up to 2^20 (2^24 thorough), contents 0x00 and 0xFF, x 10 languages; NewMnemonic for every count in [-4096,4096] plus {+-2^k, +-2^k+-1, k*2^s+v for |k|<=7, s in 31..63, v in 0..40, int extremes} x 10 languages with a counting source. Oracle: success <=> size is one of the five; rejection = (\"\", errors.Is sentinel) with zero Read calls; success = non-empty mnemonic with the right number of list words and nil error. distinct_nontrivial = distinct (length or count, language) pairs"
	c.Assume("only supported languages are constrained")
	lens := map[int]bool{}
	for n := 0; n <= 4096; n++ {
		lens[n] = true
	}
	maxk := uint(20)
	if c.Thorough {
		maxk = 24
	}
	for k := uint(8); k <= maxk; k++ {
		lens[1<<k] = true
		lens[1<<k-1] = true
		lens[1<<k+1] = true
		for _, v := range []int{16, 20, 24, 28, 32} {
			lens[1<<k+v] = true // lengths that look valid after truncation to k bits
			lens[3<<k+v] = true
		}
	}
	var ll []int
	for n := range lens {
		ll = append(ll, n)
	}
	sort.Ints(ll)
	ds := newDistinctSet()
	type job struct {
		n     int
		isNil bool
	}
	Par(c.NCPU, func(emit func(job)) {
		emit(job{0, true})
		for _, n := range ll {
			emit(job{n, false})
		}
	}, func(j job) {
		for _, fillb := range []byte{0x00, 0xFF} {
			var e []byte
			if !j.isNil {
				e = make([]byte, j.n)
				for i := range e {
					e[i] = fillb
				}
			}
			for l := 0; l < ref.NLang; l++ {
				if j.n > 8192 && l != 2 && l != 5 {
					continue
				}
				var got string
				var err error
				p := call(func() { got, err = bip39.NewMnemonicByEntropy(e, Langs[l]) })
				c.Eval(1)
				ds.Add("ent", fmt.Sprint(j.n, j.isNil, l))
				bad := ""
				if p != "" {
					bad = "panic: " + p
				} else if ref.ValidEntLen(j.n) {
					sep := ref.Sep(l)
					if err != nil || got == "" {
						bad = fmt.Sprintf("valid length rejected: (%q, %v)", got, err)
					} else if w := strings.Split(got, sep); len(w) != j.n/4*3 {
						bad = fmt.Sprintf("wrong word count %d", len(w))
					}
				} else if got != "" || err == nil || !errorsIs(err, bip39.ErrEntropyLen) {
					bad = fmt.Sprintf("invalid length: got (%q, %v), want (\"\", ErrEntropyLen)", got, err)
				}
				if bad != "" {
					c.Violate(fmt.Sprintf("entlen:%d:%v:%02x:%d", j.n, j.isNil, fillb, l),
						fmt.Sprintf("NewMnemonicByEntropy(len=%d nil=%v fill=%02x, %s): %s", j.n, j.isNil, fillb, ref.LangNames[l], bad),
						map[string]interface{}{"kind": "entlen", "len": j.n, "nil": j.isNil, "fill": int(fillb), "lang": l})
				}
			}
		}
	})
	c.AddScope("entropy lengths nil,0..4096 + powers of two boundaries x 2 fills x 10 languages", int64(len(ll)+1), true, "")

	counts := map[int]bool{}
	for n := -4096; n <= 4096; n++ {
		counts[n] = true
	}
	for _, v := range intBoundaries() {
		counts[v] = true
	}
	var cl []int
	for n := range counts {
		cl = append(cl, n)
	}
	sort.Ints(cl)
	// sequential: the source is a process global. Counts beyond +-4096 are evaluated in a
	// sandboxed child process (small address-space limit, per-call deadline): a size gate that
	// lets such a count through makes the package allocate gigabytes or loop, which has to be
	// reported as the violation it is instead of taking the check down with it.
	var big []countCall
	for _, n := range cl {
		if n > 4096 || n < -4096 {
			for l := 0; l < ref.NLang; l++ {
				big = append(big, countCall{N: n, L: l})
			}
		}
	}
	bigRes := runCountSandbox(c, big)
	for _, n := range cl {
		for l := 0; l < ref.NLang; l++ {
			var got string
			var err error
			var p string
			src := &countingReader{}
			if n > 4096 || n < -4096 {
				r, ok := bigRes[countCall{N: n, L: l}]
				c.Eval(1)
				ds.Add("cnt", fmt.Sprint(n, l))
				if !ok || r.Died != "" {
					why := "no result"
					if ok {
						why = r.Died
					}
					c.Violate(fmt.Sprintf("wordcount:%d:%d", n, l), fmt.Sprintf("NewMnemonic(%d, %s) did not return normally: %s", n, ref.LangNames[l], why),
						map[string]interface{}{"kind": "wordcount", "count": n, "lang": l})
					continue
				}
				got, p = r.Got, r.Panic
				src.calls, src.bytes = r.Calls, r.Bytes
				switch {
				case !r.HasErr:
				case r.IsWordLen:
					err = bip39.ErrWordLen
				default:
					err = errors.New(r.Err)
				}
			} else {
				prev := bip39.VerifSwapRandSource(src)
				p = call(func() { got, err = bip39.NewMnemonic(n, Langs[l]) })
				bip39.VerifSwapRandSource(prev)
				c.Eval(1)
				ds.Add("cnt", fmt.Sprint(n, l))
			}
			bad := ""
			if p != "" {
				bad = "panic: " + p
			} else if ref.ValidWordCount(n) {
				if err != nil || got == "" {
					bad = fmt.Sprintf("valid count rejected: (%q, %v)", got, err)
				} else if w := strings.Split(got, ref.Sep(l)); len(w) != n {
					bad = fmt.Sprintf("wrong word count %d", len(w))
				} else if src.bytes != n+n/3 {
					bad = fmt.Sprintf("consumed %d bytes, want %d", src.bytes, n+n/3)
				}
			} else {
				if got != "" || err == nil || !errorsIs(err, bip39.ErrWordLen) {
					bad = fmt.Sprintf("invalid count: got (%q, %v), want (\"\", ErrWordLen)", got, err)
				} else if src.calls != 0 {
					bad = fmt.Sprintf("invalid count consumed randomness (%d Read calls)", src.calls)
				}
			}
			if bad != "" {
				c.Violate(fmt.Sprintf("wordcount:%d:%d", n, l), fmt.Sprintf("NewMnemonic(%d, %s): %s", n, ref.LangNames[l], bad),
					map[string]interface{}{"kind": "wordcount", "count": n, "lang": l})
			}
		}
	}
	c.AddScope("word counts [-4096,4096] + int boundaries x 10 languages, counting source", int64(len(cl)), true, "")
	// accepted counts with a failing source: must not succeed
	for _, n := range []int{12, 15, 18, 21, 24} {
		src := &countingReader{fail: io.ErrUnexpectedEOF}
		prev := bip39.VerifSwapRandSource(src)
		got, err := bip39.NewMnemonic(n, bip39.English)
		bip39.VerifSwapRandSource(prev)
		c.Eval(1)
		if got != "" || err == nil {
			c.Violate(fmt.Sprintf("wordcount-failing-source:%d", n), fmt.Sprintf("NewMnemonic(%d) with a failing source returned (%q, %v)", n, got, err),
				map[string]interface{}{"kind": "wordcount", "count": n, "lang": 2, "failing": true})
		}
	}
	c.mu.Lock()
	c.res.Distinct = ds.Len()
	c.mu.Unlock()
	c.Sample(4, map[string]interface{}{"call": "NewMnemonicByEntropy(len=36)", "expected": "(\"\", ErrEntropyLen)"})
	c.Sample(4, map[string]interface{}{"call": "NewMnemonic(27)", "expected": "(\"\", ErrWordLen), 0 Read calls"})
	c.Sample(4, map[string]interface{}{"call": fmt.Sprintf("NewMnemonic(%d)", math.MinInt), "expected": "(\"\", ErrWordLen), 0 Read calls"})
}

func runC16(c *Ctx) {
	c.res.Rule = "Language.String() for every value in [-2^20, 2^20] (thorough [-2^24,2^24]) and {+-2^k, +-2^k+-1, int extremes}; oracle: the ten declared constants print their declared identifiers (ten distinct non-empty names), every other N prints \"Language(N)\"; a panic is a violation. distinct_nontrivial = distinct values tried"
	lim := 1 << 20
	if c.Thorough {
		lim = 1 << 24
	}
	names := map[string]bool{}
	supported := map[int]bool{} // the values of the ten declared constants (0..9 at the pinned commit)
	for l := 0; l < ref.NLang; l++ {
		supported[int(Langs[l])] = true
	}
	for l := 0; l < ref.NLang; l++ {
		var s string
		p := call(func() { s = Langs[l].String() })
		c.Eval(1)
		if p != "" || s != ref.LangNames[l] {
			c.Violate(fmt.Sprintf("string:%d", l), fmt.Sprintf("%s (value %d).String() = %q panic=%q, want %q", ref.LangNames[l], int(Langs[l]), s, p, ref.LangNames[l]),
				map[string]interface{}{"kind": "string", "value": l})
		}
		names[s] = true
	}
	if len(names) != ref.NLang || names[""] {
		c.Violate("string:names", fmt.Sprintf("the ten names are not distinct and non-empty: %v", names), map[string]interface{}{"kind": "string-names"})
	}
	type rng struct {
		lo, hi int
		bnd    bool
	}
	var distinct int64
	var total int64
	chunk := 1 << 14
	Par(c.NCPU, func(emit func(rng)) {
		// values around zero first, so that the violations kept are the simplest ones
		for v := -64; v <= 64; v++ {
			emit(rng{v, v, true})
		}
		for lo := -lim; lo <= lim; lo += chunk {
			hi := lo + chunk - 1
			if hi > lim {
				hi = lim
			}
			emit(rng{lo, hi, false})
		}
		for _, v := range intBoundaries() {
			emit(rng{v, v, true})
		}
	}, func(r rng) {
		for v := r.lo; ; v++ {
			if !supported[v] {
				var s string
				p := call(func() { s = bip39.Language(v).String() })
				want := fmt.Sprintf("Language(%d)", v)
				if p != "" || s != want {
					c.Violate(fmt.Sprintf("string:%d", v), fmt.Sprintf("Language(%d).String() = %q panic=%q, want %q", v, s, p, want),
						map[string]interface{}{"kind": "string", "value": v})
				}
			}
			c.Eval(1)
			if !r.bnd || v < -lim || v > lim {
				atomic.AddInt64(&distinct, 1)
			}
			if v == r.hi {
				break
			}
		}
	})
	total = int64(2*lim + 1 + len(intBoundaries()))
	c.AddScope(fmt.Sprintf("Language values [-%d,%d] + int boundaries", lim, lim), total, true, "")
	c.mu.Lock()
	c.res.Distinct = distinct
	c.mu.Unlock()
	c.Sample(4, map[string]interface{}{"value": 9, "expected": "Portuguese"})
	c.Sample(4, map[string]interface{}{"value": -1, "expected": "Language(-1)"})
	c.Sample(4, map[string]interface{}{"value": math.MinInt, "expected": fmt.Sprintf("Language(%d)", math.MinInt)})
}

// ---- sandbox for calls with extreme word counts -------------------------------------------

type countCall struct{ N, L int }

type countResult struct {
	N, L      int
	Got       string
	Err       string
	HasErr    bool // the error's text may be empty
	IsWordLen bool
	Panic     string
	Calls     int
	Bytes     int
	Died      string `json:",omitempty"`
}

func init() { subcommands["bigcounts"] = bigCountsMain }

// bigCountsMain: worker -prop bigcounts <file>; one "S n l" line before and one "R <json>" line
// after every NewMnemonic(n, lang) call listed in the file.
func bigCountsMain(args []string) int {
	data, err := os.ReadFile(args[0])
	if err != nil {
		return 2
	}
	var calls []countCall
	if json.Unmarshal(data, &calls) != nil {
		return 2
	}
	for _, cc := range calls {
		fmt.Printf("S %d %d\n", cc.N, cc.L)
		src := &countingReader{}
		prev := bip39.VerifSwapRandSource(src)
		var got string
		var e error
		p := call(func() { got, e = bip39.NewMnemonic(cc.N, Langs[cc.L]) })
		bip39.VerifSwapRandSource(prev)
		r := countResult{N: cc.N, L: cc.L, Got: got, Panic: p, Calls: src.calls, Bytes: src.bytes}
		if e != nil {
			r.Err = e.Error()
			r.HasErr = true
			r.IsWordLen = errorsIs(e, bip39.ErrWordLen)
		}
		out, _ := json.Marshal(&r)
		fmt.Printf("R %s\n", out)
	}
	return 0
}

// runCountSandbox evaluates the calls in child processes with a 3 GiB address-space limit and a
// 20 s deadline per call; a child that dies or stalls is restarted after the offending call.
func runCountSandbox(c *Ctx, calls []countCall) map[countCall]countResult {
	res := map[countCall]countResult{}
	dir := os.Getenv("VERIF_SCRATCH_DIR")
	for len(calls) > 0 {
		f, err := os.CreateTemp(dir, "bigcounts-")
		if err != nil {
			c.Fatal("sandbox: %v", err)
		}
		data, _ := json.Marshal(calls)
		f.Write(data)
		f.Close()
		cmd := exec.Command(os.Args[0], "-prop", "bigcounts", f.Name())
		cmd.Env = append(os.Environ(), "VERIF_AS_LIMIT_GB=3", "GOMAXPROCS=2")
		stdout, err := cmd.StdoutPipe()
		if err != nil {
			c.Fatal("sandbox: %v", err)
		}
		var stderr strings.Builder
		cmd.Stderr = &stderr
		if err := cmd.Start(); err != nil {
			c.Fatal("sandbox: %v", err)
		}
		lines := make(chan string, 64)
		go func() {
			sc := bufio.NewScanner(stdout)
			sc.Buffer(make([]byte, 1<<20), 1<<26)
			for sc.Scan() {
				lines <- sc.Text()
			}
			close(lines)
		}()
		done := 0
		inflight := -1
		died := ""
	loop:
		for {
			select {
			case l, ok := <-lines:
				if !ok {
					if done < len(calls) {
						died = "the process died: " + lastLine(stderr.String())
					}
					break loop
				}
				if strings.HasPrefix(l, "S ") {
					inflight = done
				} else if strings.HasPrefix(l, "R ") {
					var r countResult
					if json.Unmarshal([]byte(l[2:]), &r) == nil {
						res[countCall{r.N, r.L}] = r
					}
					done++
					inflight = -1
				}
			case <-time.After(20 * time.Second):
				died = "no answer within 20 s (endless loop or an enormous allocation being filled)"
				break loop
			}
		}
		cmd.Process.Kill()
		cmd.Wait()
		os.Remove(f.Name())
		if died == "" {
			break
		}
		if inflight < 0 {
			inflight = done
		}
		if inflight < len(calls) {
			cc := calls[inflight]
			res[cc] = countResult{N: cc.N, L: cc.L, Died: died}
			calls = calls[inflight+1:]
		} else {
			break
		}
	}
	return res
}

func lastLine(s string) string {
	for _, l := range strings.Split(s, "\n") {
		if strings.HasPrefix(l, "fatal error") || strings.HasPrefix(l, "panic") || strings.HasPrefix(l, "runtime:") {
			return l
		}
	}
	l := strings.Split(strings.TrimSpace(s), "\n")
	return l[len(l)-1]
}
