package main

import (
	"errors"
	"fmt"
	"strings"
	"unicode"
	"unicode/utf8"

	bip39 "github.com/islishude/bip39"

	"verif/internal/enum"
	"verif/internal/ref"
)

func errorsIs(err, target error) bool { return errors.Is(err, target) }

// SCase is one sentence-level test case with its reference analysis.
type SCase struct {
	S      string   // the string handed to the implementation
	L      int      // reference language number
	Tokens []string // whitespace-separated tokens of the NFKD form of S (known by construction)
	Canon  bool     // S is Tokens joined by single U+0020 without leading/trailing separator
	Class  string   // operator that produced the case
}

// validate calls both validation entry points and checks their agreement.
func (c *Ctx) validate(s string, lg bip39.Language) (err error, panicked string) {
	var okb bool
	panicked = call(func() { err = bip39.CheckMnemonic(s, lg); okb = bip39.IsMnemonicValid(s, lg) })
	c.Eval(1)
	if panicked == "" && okb != (err == nil) {
		c.Violate(fmt.Sprintf("isvalid-mismatch:%s:%d", hs(s), int(lg)),
			fmt.Sprintf("IsMnemonicValid=%v but CheckMnemonic=%v for %q (%v)", okb, err, s, lg),
			map[string]interface{}{"kind": "check", "sentence": hs(s), "langvalue": int(lg), "lang": 0, "expect": "consistent"})
	}
	return
}

func upperFirst(w string) string {
	r, n := utf8.DecodeRuneInString(w)
	return string(unicode.ToUpper(r)) + w[n:]
}

// nfkdSep maps the separators used by the damage operator to their NFKD form.
var nfkdSep = strings.NewReplacer("\u3000", " ", "\u00a0", " ", "\u2003", " ")

// sentenceCases enumerates the sentence scopes of DESIGN 2.4 for one
// (language, base word sequence). heavy selects the n x 2047 substitution sweep.
func sentenceCases(m *ref.Model, l int, base []string, heavy bool, emit func(SCase)) {
	n := len(base)
	list := m.List[l]
	join := func(t []string) string { return strings.Join(t, " ") }
	mk := func(tokens []string, class string) {
		emit(SCase{S: join(tokens), L: l, Tokens: tokens, Canon: true, Class: class})
	}
	// last-word sweep
	for x := 0; x < 2048; x++ {
		t := append(append([]string(nil), base[:n-1]...), list[x])
		mk(t, "last-word-sweep")
	}
	// single substitutions
	if heavy {
		for p := 0; p < n-1; p++ {
			for x := 0; x < 2048; x++ {
				if list[x] == base[p] {
					continue
				}
				t := append([]string(nil), base...)
				t[p] = list[x]
				mk(t, "substitution")
			}
		}
	} else {
		// light: 16 substitutes per position (neighbours and bit flips of the index)
		for p := 0; p < n-1; p++ {
			bi := m.Dict[l][base[p]]
			for k := 0; k < 11; k++ {
				t := append([]string(nil), base...)
				t[p] = list[bi^(1<<uint(k))]
				mk(t, "substitution")
			}
			for _, d := range []int{1, 2047, 2, 1024, 3} {
				t := append([]string(nil), base...)
				t[p] = list[(bi+d)%2048]
				mk(t, "substitution")
			}
		}
	}
	// transpositions
	for i := 0; i < n; i++ {
		for j := i + 1; j < n; j++ {
			if base[i] == base[j] {
				continue
			}
			t := append([]string(nil), base...)
			t[i], t[j] = t[j], t[i]
			mk(t, "transposition")
		}
	}
	// every word count 0..27 (truncate / extend cyclically)
	for k := 0; k <= 27; k++ {
		if k == n {
			continue
		}
		t := make([]string, k)
		for i := range t {
			t[i] = base[i%n]
		}
		if k == 0 {
			emit(SCase{S: "", L: l, Tokens: nil, Canon: true, Class: "count"})
			continue
		}
		mk(t, "count")
	}
	// foreign words at every position
	for fl := 0; fl < ref.NLang; fl++ {
		if fl == l {
			continue
		}
		for _, fx := range []int{0, 1, 1000, 2047} {
			fw := m.List[fl][fx]
			for p := 0; p < n; p++ {
				t := append([]string(nil), base...)
				t[p] = fw
				mk(t, "foreign-word")
			}
		}
	}
	// token damage at every position
	for p := 0; p < n; p++ {
		w := base[p]
		var dam []string
		if u := upperFirst(w); u != w {
			dam = append(dam, u)
		}
		if u := strings.ToUpper(w); u != w {
			dam = append(dam, u)
		}
		dam = append(dam, w+"s", w+w)
		_, sz := utf8.DecodeLastRuneInString(w)
		if len(w) > sz {
			dam = append(dam, w[:len(w)-sz])
		}
		_, sz0 := utf8.DecodeRuneInString(w)
		if len(w) > sz0 {
			dam = append(dam, w[sz0:])
		}
		for _, d := range dam {
			t := append([]string(nil), base...)
			t[p] = d
			mk(t, "token-damage")
		}
	}
	// separator damage (not canonical: only the implication of C03 applies)
	s := join(base)
	for _, v := range []string{" " + s, s + " ", strings.Replace(s, " ", "  ", 1), strings.Replace(s, " ", "\t", 1), strings.Replace(s, " ", "\n", 1),
		strings.Replace(s, " ", "\u00a0", 1), strings.Replace(s, " ", "\u2003", 1), strings.Replace(s, " ", "\u3000", 1),
		strings.Replace(s, " ", "\u3000", -1), strings.Replace(s, " ", "", 1), strings.Replace(s, " ", "\t", -1), "\n" + s + "\n"} {
		emit(SCase{S: v, L: l, Tokens: ref.SplitSpace(nfkdSep.Replace(v)), Canon: false, Class: "separator-damage"})
	}
}

// baseSentences returns the reference word sequences used as mutation bases
// for language l and entropy size L.
func baseSentences(m *ref.Model, l, L int) [][]string {
	var out [][]string
	for _, e := range enum.Rep(L) {
		out = append(out, m.Words(e, l))
	}
	return out
}

type sentJob struct {
	l, L, bi int
	base     []string
	heavy    bool
}

// forAllSentenceCases runs handle over all sentence scopes in parallel (one
// job per (language, size, base)).
func (c *Ctx) forAllSentenceCases(handle func(SCase)) {
	var jobs []sentJob
	for l := 0; l < ref.NLang; l++ {
		for _, L := range enum.EntLens {
			for bi, b := range baseSentences(c.M, l, L) {
				heavy := c.Thorough || bi == 0 || bi == 5
				jobs = append(jobs, sentJob{l, L, bi, b, heavy})
			}
		}
	}
	// heavy jobs first for better load balance
	ParB(c.NCPU, 1, func(emit func(sentJob)) {
		for _, h := range []bool{true, false} {
			for _, j := range jobs {
				if j.heavy == h {
					emit(j)
				}
			}
		}
	}, func(j sentJob) {
		sentenceCases(c.M, j.l, j.base, j.heavy, handle)
	})
}
