package main

import (
	"errors"
	"fmt"
	"sort"
	"strings"
	"unicode"
	"unicode/utf8"

	bip39 "github.com/islishude/bip39"

	"verif/internal/enum"
	"verif/internal/ref"
)

func errorsIs(err, target error) bool { return errors.Is(err, target) }

// SCase is one sentence-level test case with its reference analysis.
type SCase struct {
	S      string   // the string handed to the implementation
	L      int      // reference language number
	Tokens []string // whitespace-separated tokens of the NFKD form of S (known by construction)
	Canon  bool     // S is Tokens joined by single U+0020 without leading/trailing separator
	Equiv  bool     // S is Tokens joined by single separators each of which NFKD maps to U+0020 (same NFKD form as the canonical spelling)
	Class  string   // operator that produced the case
}

// validate calls both validation entry points and checks their agreement.
func (c *Ctx) validate(s string, lg bip39.Language) (err error, panicked string) {
	var okb bool
	panicked = call(func() { err = bip39.CheckMnemonic(s, lg); okb = bip39.IsMnemonicValid(s, lg) })
	c.Eval(1)
	if panicked == "" && okb != (err == nil) {
		c.Violate(fmt.Sprintf("isvalid-mismatch:%s:%d", hs(s), int(lg)),
			fmt.Sprintf("IsMnemonicValid=%v but CheckMnemonic=%v for %q (%v)", okb, err, s, lg),
			map[string]interface{}{"kind": "check", "sentence": hs(s), "langvalue": int(lg), "lang": 0, "expect": "consistent"})
	}
	return
}

func upperFirst(w string) string {
	r, n := utf8.DecodeRuneInString(w)
	return string(unicode.ToUpper(r)) + w[n:]
}

// nfkdSep maps the separators used by the damage operator to their NFKD form.
var nfkdSep = strings.NewReplacer("\u3000", " ", "\u00a0", " ", "\u2003", " ")

// sentenceCases enumerates the sentence scopes of DESIGN 2.4 for one
// (language, base word sequence). heavy selects the n x 2047 substitution sweep.
func sentenceCases(m *ref.Model, l int, base []string, heavy bool, emit func(SCase)) {
	n := len(base)
	list := m.List[l]
	join := func(t []string) string { return strings.Join(t, " ") }
	mk := func(tokens []string, class string) {
		emit(SCase{S: join(tokens), L: l, Tokens: tokens, Canon: true, Class: class})
	}
	// last-word sweep
	for x := 0; x < 2048; x++ {
		t := append(append([]string(nil), base[:n-1]...), list[x])
		mk(t, "last-word-sweep")
	}
	// single substitutions
	if heavy {
		for p := 0; p < n-1; p++ {
			for x := 0; x < 2048; x++ {
				if list[x] == base[p] {
					continue
				}
				t := append([]string(nil), base...)
				t[p] = list[x]
				mk(t, "substitution")
			}
		}
	} else {
		// light: 16 substitutes per position (neighbours and bit flips of the index)
		for p := 0; p < n-1; p++ {
			bi := m.Dict[l][base[p]]
			for k := 0; k < 11; k++ {
				t := append([]string(nil), base...)
				t[p] = list[bi^(1<<uint(k))]
				mk(t, "substitution")
			}
			for _, d := range []int{1, 2047, 2, 1024, 3} {
				t := append([]string(nil), base...)
				t[p] = list[(bi+d)%2048]
				mk(t, "substitution")
			}
		}
	}
	// transpositions
	for i := 0; i < n; i++ {
		for j := i + 1; j < n; j++ {
			if base[i] == base[j] {
				continue
			}
			t := append([]string(nil), base...)
			t[i], t[j] = t[j], t[i]
			mk(t, "transposition")
		}
	}
	// every word count 0..50 (truncate / extend cyclically)
	for k := 0; k <= 50; k++ {
		if k == n {
			continue
		}
		t := make([]string, k)
		for i := range t {
			t[i] = base[i%n]
		}
		if k == 0 {
			emit(SCase{S: "", L: l, Tokens: nil, Canon: true, Class: "count"})
			continue
		}
		mk(t, "count")
	}
	// large word counts, including those that are acceptable modulo 256 / 2^16 (only for the first
	// base of each size to keep the volume down: heavy == true selects it)
	if heavy {
		for k := 51; k <= 600; k++ {
			t := make([]string, k)
			for i := range t {
				t[i] = base[i%n]
			}
			mk(t, "count")
		}
		for _, k := range []int{65536 + 12, 65536 + 24} {
			t := make([]string, k)
			for i := range t {
				t[i] = base[i%n]
			}
			mk(t, "count")
		}
	}
	// foreign words at every position
	for fl := 0; fl < ref.NLang; fl++ {
		if fl == l {
			continue
		}
		for _, fx := range []int{0, 1, 1000, 2047} {
			fw := m.List[fl][fx]
			for p := 0; p < n; p++ {
				t := append([]string(nil), base...)
				t[p] = fw
				mk(t, "foreign-word")
			}
		}
	}
	// tokens that look like formatting directives (an error built by passing the token as the format
	// string would not name it); printable ASCII only, so that a quoting message leaves them intact
	for _, fv := range []string{"%s", "%d", "%v%v", "%[2]d", "100%", "%%", "%!s(x)"} {
		for _, p := range []int{0, n / 2, n - 1} {
			t := append([]string(nil), base...)
			t[p] = fv
			mk(t, "format-verb-token")
		}
	}
	// token damage at every position
	for p := 0; p < n; p++ {
		w := base[p]
		var dam []string
		if u := upperFirst(w); u != w {
			dam = append(dam, u)
		}
		if u := strings.ToUpper(w); u != w {
			dam = append(dam, u)
		}
		dam = append(dam, w+"s", w+w)
		_, sz := utf8.DecodeLastRuneInString(w)
		if len(w) > sz {
			dam = append(dam, w[:len(w)-sz])
		}
		_, sz0 := utf8.DecodeRuneInString(w)
		if len(w) > sz0 {
			dam = append(dam, w[sz0:])
		}
		for _, d := range dam {
			t := append([]string(nil), base...)
			t[p] = d
			mk(t, "token-damage")
		}
		// the same unknown token behind a separator that NFKD maps to U+0020: the token list of the
		// NFKD form is unchanged, so the error must still name this token
		if p > 0 && len(dam) > 0 {
			t := append([]string(nil), base...)
			t[p] = dam[len(dam)-1]
			for _, sep := range []string{"\u3000", "\u00a0", "\u2003"} {
				sv := strings.Join(t[:1], " ") + sep + strings.Join(t[1:], " ")
				emit(SCase{S: sv, L: l, Tokens: t, Canon: false, Equiv: true, Class: "token-damage-sep"})
			}
		}
	}
	// a typed token ending in a spacing accent whose NFKD form is SPACE + combining mark (U+00B4 ->
	// U+0020 U+0301, U+00A8 -> U+0020 U+0308): n-1 typed tokens become n tokens, one of which is the
	// lone mark — the only unknown token, which the error has to name
	for _, acc := range [][2]string{{"\u00b4", "\u0301"}, {"\u00a8", "\u0308"}} {
		for _, p := range []int{0, n / 2, n - 2} {
			typed := append([]string(nil), base[:n-1]...)
			typed[p] += acc[0]
			toks := append(append(append([]string(nil), base[:p+1]...), acc[1]), base[p+1:n-1]...)
			emit(SCase{S: join(typed), L: l, Tokens: toks, Canon: false, Equiv: true, Class: "spacing-accent"})
		}
	}
	// ill-formed UTF-8 in an otherwise valid sentence (a lone 0xFF or continuation byte, truncated
	// two- and three-byte sequences, an overlong form, an encoded surrogate, a value above U+10FFFF):
	// the bytes belong to the token they touch, which is then not a list word - code that drops or
	// replaces them (ToValidUTF8, a []rune round trip) would accept or misreport the sentence
	for _, bad := range []string{"\xff", "\x80", "\xc3", "\xe3\x81", "\xc0\xaf", "\xed\xa0\x80", "\xf4\x90\x80\x80"} {
		for _, p := range []int{0, n / 2, n - 1} {
			w := base[p]
			_, sz := utf8.DecodeRuneInString(w)
			for _, d := range []string{bad + w, w + bad, w[:sz] + bad + w[sz:]} {
				t := append([]string(nil), base...)
				t[p] = d
				emit(SCase{S: join(t), L: l, Tokens: t, Canon: false, Class: "ill-formed-utf8"})
			}
		}
		// as a token of its own in place of a word, and glued to the separators at both ends
		t := append([]string(nil), base...)
		t[n/2] = bad
		emit(SCase{S: join(t), L: l, Tokens: t, Canon: false, Class: "ill-formed-utf8"})
	}
	// empty token in place of a word (the separators stay): n tokens after a split on
	// U+0020 but only n-1 words
	for p := 0; p < n; p++ {
		t := append([]string(nil), base...)
		t[p] = ""
		sEmpty := join(t)
		emit(SCase{S: sEmpty, L: l, Tokens: ref.SplitSpace(sEmpty), Canon: false, Class: "empty-token"})
	}
	// a word removed from an n+1 / n+2 word sentence leaving its separator behind (the
	// split count becomes acceptable again)
	if n >= 15 {
		for _, drop := range [][]int{{0}, {n - 1}, {3}, {2, 7}, {0, n - 1}, {n - 2, n - 1}, {0, 1, 2}} {
			if n-len(drop) < 12 {
				continue
			}
			t := append([]string(nil), base...)
			for _, d := range drop {
				t[d] = ""
			}
			sEmpty := join(t)
			emit(SCase{S: sEmpty, L: l, Tokens: ref.SplitSpace(sEmpty), Canon: false, Class: "empty-token"})
		}
	}
	// invisible characters (not white space, unchanged by NFKD) around the sentence and around tokens
	s := join(base)
	for _, inv := range invisibles {
		for _, v := range []string{inv + s, s + inv, strings.Replace(s, " ", inv+" ", 1), strings.Replace(s, " ", " "+inv, 1), strings.Replace(s, " ", " "+inv+" ", 1)} {
			emit(SCase{S: v, L: l, Tokens: ref.SplitSpace(v), Canon: false, Class: "invisible-affix"})
		}
	}
	// separator damage (not canonical: only the implication of C03 applies)
	for _, v := range []string{" " + s, s + " ", strings.Replace(s, " ", "  ", 1), strings.Replace(s, " ", "\t", 1), strings.Replace(s, " ", "\n", 1),
		strings.Replace(s, " ", "\u00a0", 1), strings.Replace(s, " ", "\u2003", 1), strings.Replace(s, " ", "\u3000", 1),
		strings.Replace(s, " ", "\u3000", -1), strings.Replace(s, " ", "", 1), strings.Replace(s, " ", "\t", -1), "\n" + s + "\n"} {
		emit(SCase{S: v, L: l, Tokens: ref.SplitSpace(nfkdSep.Replace(v)), Canon: false, Class: "separator-damage"})
	}
}

// invisibles are code points that are neither White_Space nor changed by NFKD.
var invisibles = []string{"\ufeff", "\u200b", "\u200d", "\u00ad", "\u2060", "\u200e", "\x00", "\u034f"}

// damageWord returns misspellings of list word w: each is a token a careless
// validator might map to a list word (case folding, mark stripping, prefix
// matching, affixes).
func damageWord(w string) []string {
	seen := map[string]bool{w: true}
	var out []string
	add := func(d string) {
		if d != "" && !seen[d] {
			seen[d] = true
			out = append(out, d)
		}
	}
	add(upperFirst(w))
	add(strings.ToUpper(w))
	add(strings.Title(w))
	// strip combining marks (accent-less / dakuten-less spelling)
	add(strings.Map(func(r rune) rune {
		if unicode.Is(unicode.Mn, r) {
			return -1
		}
		return r
	}, w))
	rs := []rune(w)
	if len(rs) > 4 {
		add(string(rs[:4])) // unique-prefix spelling
	}
	if len(rs) > 1 {
		add(string(rs[:len(rs)-1]))
		add(string(rs[1:]))
	}
	// every proper prefix and suffix (code that completes, suggests or compares by prefix; byte
	// length and rune count differ for every script but ASCII)
	for k := 1; k < len(rs); k++ {
		add(string(rs[:k]))
		add(string(rs[k:]))
	}
	add(w + "s")
	add(w + "\u0301")
	add(w + "\u200b")
	add("\ufeff" + w)
	add(w + ".")
	add(w + ",")
	return out
}

// wordDamageCases enumerates, for list word i of language l, every misspelling
// of damageWord placed into reference-valid contexts (ctx different sentences,
// varying the other words and the position), plus the canonical word of every
// other language with the same index.
func wordDamageCases(m *ref.Model, l, i, ctx int, emit func(SCase)) {
	w := m.List[l][i]
	toks := damageWord(w)
	for fl := 0; fl < ref.NLang; fl++ {
		if fl != l {
			toks = append(toks, m.List[fl][i])
		}
	}
	counts := []int{12, 15, 18, 21, 24}
	for k := 0; k < ctx; k++ {
		n := counts[(i+k)%5]
		if k > 0 {
			n = 12 // smallest checksum: highest chance that a wrong index still passes
		}
		L := n / 3 * 4
		p := (i + k) % (n - 1)
		e := make([]byte, L)
		for b := range e {
			e[b] = byte(k*53 + b*k)
		}
		setWindow(e, p, i)
		words := m.Words(e, l)
		for _, d := range toks {
			t := append([]string(nil), words...)
			t[p] = d
			emit(SCase{S: strings.Join(t, " "), L: l, Tokens: ref.SplitSpace(strings.Join(t, " ")), Canon: !strings.ContainsAny(d, " \t"), Class: "word-damage"})
		}
	}
}

// baseSentences returns the reference word sequences used as mutation bases
// for language l and entropy size L.
func baseSentences(m *ref.Model, l, L int) [][]string {
	var out [][]string
	for _, e := range enum.Rep(L) {
		out = append(out, m.Words(e, l))
	}
	return out
}

type sentJob struct {
	l, L, bi int
	base     []string
	heavy    bool
}

// forAllSentenceCases runs handle over all sentence scopes in parallel (one
// job per (language, size, base)).
func (c *Ctx) forAllSentenceCases(handle func(SCase)) {
	var jobs []sentJob
	for l := 0; l < ref.NLang; l++ {
		for _, L := range enum.EntLens {
			for bi, b := range baseSentences(c.M, l, L) {
				heavy := c.Thorough || bi == 0 || bi == 5
				jobs = append(jobs, sentJob{l, L, bi, b, heavy})
			}
		}
	}
	// heavy jobs first for better load balance
	ParB(c.NCPU, 1, func(emit func(sentJob)) {
		for _, h := range []bool{true, false} {
			for _, j := range jobs {
				if j.heavy == h {
					emit(j)
				}
			}
		}
	}, func(j sentJob) {
		sentenceCases(c.M, j.l, j.base, j.heavy, handle)
	})
	// per-word damage over all 10 x 2048 list words
	type wj struct{ l, i int }
	ctx := 4
	if c.Thorough {
		ctx = 16
	}
	Par(c.NCPU, func(emit func(wj)) {
		for l := 0; l < ref.NLang; l++ {
			for i := 0; i < 2048; i++ {
				emit(wj{l, i})
			}
		}
	}, func(j wj) {
		wordDamageCases(c.M, j.l, j.i, ctx, handle)
	})
}

// extremeSentences returns reference-valid sentences of language l built from the
// longest list words (by bytes and by code points) and from the shortest ones, for
// every word count: the inputs on which a size limit of any kind bites first.
func extremeSentences(m *ref.Model, l int) [][]string {
	type ranked struct {
		idx  int
		size int
	}
	rank := func(size func(string) int, longest bool) []int {
		r := make([]ranked, 2048)
		for i, w := range m.List[l] {
			r[i] = ranked{i, size(w)}
		}
		sort.SliceStable(r, func(a, b int) bool {
			if longest {
				return r[a].size > r[b].size
			}
			return r[a].size < r[b].size
		})
		out := make([]int, 2048)
		for i := range r {
			out[i] = r[i].idx
		}
		return out
	}
	orders := [][]int{
		rank(func(w string) int { return len(w) }, true),
		rank(func(w string) int { return utf8.RuneCountInString(w) }, true),
		rank(func(w string) int { return len(w) }, false),
	}
	var out [][]string
	for _, ord := range orders {
		pos := map[int]int{}
		for i, x := range ord {
			pos[x] = i
		}
		for _, n := range []int{12, 15, 18, 21, 24} {
			t := make([]string, n)
			for i := 0; i < n-1; i++ {
				t[i] = m.List[l][ord[i]]
			}
			best, bestRank := -1, 1<<30
			for x := 0; x < 2048; x++ {
				t[n-1] = m.List[l][x]
				if v, _ := m.ValidateTokens(t, l); v == ref.VValid && pos[x] < bestRank {
					best, bestRank = x, pos[x]
				}
			}
			t[n-1] = m.List[l][best]
			out = append(out, append([]string(nil), t...))
		}
	}
	return out
}
