package main

import (
	"bytes"
	"encoding/hex"
	"encoding/json"
	"fmt"
	"os"
	"strconv"
	"strings"
	"time"

	bip39 "github.com/islishude/bip39"

	"verif/internal/ref"
)

func init() { subcommands["replay"] = replayMain }

func unhex(v interface{}) []byte {
	s, _ := v.(string)
	b, _ := hex.DecodeString(s)
	return b
}

func toInt(v interface{}) int {
	f, _ := v.(float64)
	return int(f)
}

// replayers re-execute one recorded case without any explorer and report
// whether it still fails (exit 1) or passes now (exit 0).
var replayers = map[string]func(m *ref.Model, cs map[string]interface{}) bool{}

func replayMain(args []string) int {
	if len(args) < 1 {
		fmt.Fprintln(os.Stderr, "replay: need file")
		return 2
	}
	data, err := os.ReadFile(args[0])
	if err != nil {
		fmt.Fprintln(os.Stderr, err)
		return 2
	}
	var rep struct {
		Property string                 `json:"property"`
		Key      string                 `json:"key"`
		What     string                 `json:"what"`
		Case     map[string]interface{} `json:"case"`
	}
	if err := json.Unmarshal(data, &rep); err != nil {
		fmt.Fprintln(os.Stderr, err)
		return 2
	}
	verif := "/verif"
	if v := os.Getenv("VERIF_DIR"); v != "" {
		verif = v
	}
	m, err := ref.Load(verif + "/golden")
	if err != nil {
		fmt.Fprintln(os.Stderr, err)
		return 2
	}
	kind, _ := rep.Case["kind"].(string)
	f, ok := replayers[kind]
	if !ok {
		fmt.Fprintf(os.Stderr, "replay: no in-process replayer for case kind %q\n", kind)
		return 2
	}
	fmt.Printf("replaying %s %s\nrecorded: %s\n", rep.Property, rep.Key, rep.What)
	if f(m, rep.Case) {
		fmt.Println("replay: case passes on the current tree")
		return 0
	}
	fmt.Printf("VIOLATION property=%s replay=%s\n", rep.Property, args[0])
	return 1
}

func init() {
	replayers["encode"] = func(m *ref.Model, cs map[string]interface{}) bool {
		e, l := unhex(cs["entropy"]), toInt(cs["lang"])
		got, err := bip39.NewMnemonicByEntropy(e, Langs[l])
		want := m.Encode(e, l)
		fmt.Printf("NewMnemonicByEntropy(%x, %s)\n observed: %q err=%v\n expected: %q\n", e, ref.LangNames[l], got, err, want)
		return err == nil && got == want
	}
	replayers["encode-inplace"] = func(m *ref.Model, cs map[string]interface{}) bool {
		e, l, bit := unhex(cs["entropy"]), toInt(cs["lang"]), toInt(cs["bit"])
		buf := append([]byte(nil), e...)
		buf[bit/8] ^= 1 << uint(7-bit%8)
		before, _ := bip39.NewMnemonicByEntropy(buf, Langs[l])
		buf[bit/8] ^= 1 << uint(7-bit%8)
		got, err := bip39.NewMnemonicByEntropy(buf, Langs[l])
		want := m.Encode(buf, l)
		fmt.Printf("NewMnemonicByEntropy on one buffer before the in-place flip: %q\nafter the flip (%x, %s): %q err=%v\nexpected: %q\n", before, buf, ref.LangNames[l], got, err, want)
		return err == nil && got == want
	}
	replayers["check"] = func(m *ref.Model, cs map[string]interface{}) bool {
		s, l := string(unhex(cs["sentence"])), toInt(cs["lang"])
		var lg bip39.Language
		if v, ok := cs["langvalue"]; ok {
			lg = bip39.Language(toInt(v))
		} else {
			lg = Langs[l]
		}
		err := bip39.CheckMnemonic(s, lg)
		okb := bip39.IsMnemonicValid(s, lg)
		exp, _ := cs["expect"].(string)
		fmt.Printf("CheckMnemonic(%q, %v)\n observed: err=%v IsMnemonicValid=%v\n expected: %s\n", s, lg, err, okb, exp)
		switch exp {
		case "valid":
			return err == nil && okb
		case "reject":
			return err != nil && !okb
		case "ErrWordLen":
			return err != nil && errorsIs(err, bip39.ErrWordLen)
		case "ErrChecksumIncorrect":
			return err != nil && errorsIs(err, bip39.ErrChecksumIncorrect)
		case "unknown-word":
			return err != nil && !errorsIs(err, bip39.ErrWordLen) && !errorsIs(err, bip39.ErrChecksumIncorrect)
		}
		return (err == nil) == okb
	}
	replayers["seed"] = func(m *ref.Model, cs map[string]interface{}) bool {
		mn, pw := string(unhex(cs["mnemonic"])), string(unhex(cs["passphrase"]))
		got := bip39.MnemonicToSeed(mn, pw)
		want := unhex(cs["expected"])
		fmt.Printf("MnemonicToSeed(%q, %q)\n observed: %x\n expected: %x\n", mn, pw, got, want)
		return string(got) == string(want)
	}
}

func init() {
	replayers["script"] = func(m *ref.Model, cs map[string]interface{}) bool {
		n, l := toInt(cs["count"]), toInt(cs["lang"])
		script, _ := cs["script"].(string)
		sticky, _ := cs["sticky"].(bool)
		variant, _ := cs["variant"].(string)
		bad, outcome := runScript(m, n, l, parseScript(script), sticky, variant)
		fmt.Printf("NewMnemonic(%d, %s) over source script [%s]\n outcome: %s %s\n", n, ref.LangNames[l], script, outcome, bad)
		return bad == ""
	}
	replayers["entlen"] = func(m *ref.Model, cs map[string]interface{}) bool {
		n, l := toInt(cs["len"]), toInt(cs["lang"])
		var e []byte
		if nilv, _ := cs["nil"].(bool); !nilv {
			e = make([]byte, n)
			for i := range e {
				e[i] = byte(toInt(cs["fill"]))
			}
		}
		var got string
		var err error
		pn := call(func() { got, err = bip39.NewMnemonicByEntropy(e, Langs[l]) })
		fmt.Printf("NewMnemonicByEntropy(len=%d nil=%v, %s)\n observed: (%q, %v) panic=%q\n", n, e == nil, ref.LangNames[l], got, err, pn)
		if pn != "" {
			return false
		}
		if ref.ValidEntLen(n) {
			return err == nil && got != ""
		}
		return got == "" && err != nil && errorsIs(err, bip39.ErrEntropyLen)
	}
	replayers["wordcount"] = func(m *ref.Model, cs map[string]interface{}) bool {
		n, l := toInt(cs["count"]), toInt(cs["lang"])
		if f, ok := cs["count"].(float64); ok && (f > 9e15 || f < -9e15) {
			fmt.Println("replay: count too large for a JSON number to carry exactly; re-run the check")
			return true
		}
		src := &countingReader{}
		if failing, _ := cs["failing"].(bool); failing {
			src.fail = errCustom
		}
		prev := bip39.VerifSwapRandSource(src)
		var got string
		var err error
		pn := call(func() { got, err = bip39.NewMnemonic(n, Langs[l]) })
		bip39.VerifSwapRandSource(prev)
		fmt.Printf("NewMnemonic(%d, %s)\n observed: (%q, %v) panic=%q, %d Read calls\n", n, ref.LangNames[l], got, err, pn, src.calls)
		if pn != "" {
			return false
		}
		if ref.ValidWordCount(n) {
			if src.fail != nil {
				return got == "" && err != nil
			}
			return err == nil && got != ""
		}
		return got == "" && err != nil && errorsIs(err, bip39.ErrWordLen) && src.calls == 0
	}
	replayers["string"] = func(m *ref.Model, cs map[string]interface{}) bool {
		v := toInt(cs["value"])
		var s string
		pn := call(func() { s = bip39.Language(v).String() })
		want := fmt.Sprintf("Language(%d)", v)
		if v >= 0 && v < ref.NLang {
			want = ref.LangNames[v]
		}
		fmt.Printf("Language(%d).String()\n observed: %q panic=%q\n expected: %q\n", v, s, pn, want)
		return pn == "" && s == want
	}
	replayers["checkpair"] = func(m *ref.Model, cs map[string]interface{}) bool {
		a, b, l := string(unhex(cs["a"])), string(unhex(cs["b"])), toInt(cs["lang"])
		ea, eb := bip39.CheckMnemonic(a, Langs[l]), bip39.CheckMnemonic(b, Langs[l])
		fmt.Printf("CheckMnemonic(%+q) = %v\nCheckMnemonic(%+q) = %v   (%s; both strings have the same NFKD form)\n", a, ea, b, eb, ref.LangNames[l])
		return classify(ea) == classify(eb)
	}
	replayers["seedpair"] = func(m *ref.Model, cs map[string]interface{}) bool {
		m1, p1, m2, p2 := string(unhex(cs["m1"])), string(unhex(cs["p1"])), string(unhex(cs["m2"])), string(unhex(cs["p2"]))
		s1, s2 := bip39.MnemonicToSeed(m1, p1), bip39.MnemonicToSeed(m2, p2)
		fmt.Printf("MnemonicToSeed(%+q, %+q) = %x\nMnemonicToSeed(%+q, %+q) = %x   (components have equal NFKD forms)\n", m1, p1, s1, m2, p2, s2)
		return string(s1) == string(s2)
	}
	replayers["seedseq"] = func(m *ref.Model, cs map[string]interface{}) bool {
		calls, _ := cs["calls"].([]interface{})
		var first, last []byte
		for i := 0; i+1 < len(calls); i += 2 {
			mn, pw := string(unhex(calls[i])), string(unhex(calls[i+1]))
			out := bip39.MnemonicToSeed(mn, pw)
			fmt.Printf("MnemonicToSeed(%+q, %+q) = %x\n", mn, pw, out)
			if i == 0 {
				first = out
			}
			last = out
		}
		fmt.Println("(first and last call have the same arguments)")
		return string(first) == string(last)
	}
	replayers["checkcross"] = func(m *ref.Model, cs map[string]interface{}) bool {
		s, a, b := string(unhex(cs["sentence"])), toInt(cs["first"]), toInt(cs["lang"])
		e1 := bip39.CheckMnemonic(s, Langs[a])
		e2 := bip39.CheckMnemonic(s, Langs[b])
		v, _ := m.ValidateTokens(strings.Split(s, " "), b)
		fmt.Printf("CheckMnemonic(%q, %s) = %v\nthen the same string under %s = %v (reference verdict %q)\n", s, ref.LangNames[a], e1, ref.LangNames[b], e2, v)
		return (e2 == nil) == (v == ref.VValid) || e2 != nil
	}
	replayers["encodeafter"] = func(m *ref.Model, cs map[string]interface{}) bool {
		first, e, l := string(unhex(cs["first"])), unhex(cs["entropy"]), toInt(cs["lang"])
		e1 := bip39.CheckMnemonic(first, Langs[l])
		got, err := bip39.NewMnemonicByEntropy(e, Langs[l])
		want := m.Encode(e, l)
		fmt.Printf("CheckMnemonic(%q) = %v\nthen NewMnemonicByEntropy(%x, %s) = %q err=%v\nexpected %q\n", first, e1, e, ref.LangNames[l], got, err, want)
		return err == nil && got == want
	}
	replayers["checkafter"] = func(m *ref.Model, cs map[string]interface{}) bool {
		first, s, l := string(unhex(cs["first"])), string(unhex(cs["sentence"])), toInt(cs["lang"])
		e1 := bip39.CheckMnemonic(first, Langs[l])
		e2 := bip39.CheckMnemonic(s, Langs[l])
		fmt.Printf("CheckMnemonic(%q) = %v\nthen CheckMnemonic(%q) = %v (a valid sentence)\n", first, e1, s, e2)
		return e2 == nil
	}
	replayers["seed-fresh"] = func(m *ref.Model, cs map[string]interface{}) bool {
		mn, pw := string(unhex(cs["mnemonic"])), string(unhex(cs["passphrase"]))
		first := bip39.MnemonicToSeed(mn, pw)
		keep := append([]byte(nil), first...)
		for i := range first {
			first[i] ^= 0xFF
		}
		again := bip39.MnemonicToSeed(mn, pw)
		fmt.Printf("MnemonicToSeed(%+q, %+q) twice, first result overwritten in between\n first:  %x\n second: %x\n", mn, pw, keep, again)
		return string(again) == string(keep)
	}
	replayers["seed-returns"] = func(m *ref.Model, cs map[string]interface{}) bool {
		mn, pw := string(unhex(cs["mnemonic"])), string(unhex(cs["passphrase"]))
		pn := call(func() { _ = bip39.MnemonicToSeed(mn, pw) })
		fmt.Printf("MnemonicToSeed(%+q, %+q) panic=%q\n", mn, pw, pn)
		return pn == ""
	}
	replayers["check-returns"] = func(m *ref.Model, cs map[string]interface{}) bool {
		s, l := string(unhex(cs["sentence"])), toInt(cs["lang"])
		done := make(chan string, 1)
		go func() {
			done <- call(func() { _ = bip39.CheckMnemonic(s, Langs[l]); _ = bip39.IsMnemonicValid(s, Langs[l]) })
		}()
		select {
		case pn := <-done:
			fmt.Printf("CheckMnemonic / IsMnemonicValid(%q, %s) panic=%q\n", s, ref.LangNames[l], pn)
			return pn == ""
		case <-time.After(hangDeadline):
			fmt.Printf("CheckMnemonic / IsMnemonicValid(%q, %s) did not return within %v\n", s, ref.LangNames[l], hangDeadline)
			return false
		}
	}
	replayers["list-after-use"] = func(m *ref.Model, cs map[string]interface{}) bool {
		l, i := toInt(cs["lang"]), toInt(cs["index"])
		words := m.Words(bytes.Repeat([]byte{byte(0x31 + l)}, 32), l)
		for _, p := range []int{0, 7, 23} {
			for _, tok := range []string{"zz" + words[p], m.List[(l+1)%ref.NLang][1234], words[p] + "\u0301", strings.ToUpper(words[p]) + "x"} {
				t := append([]string(nil), words...)
				t[p] = tok
				call(func() { _ = bip39.CheckMnemonic(strings.Join(t, " "), Langs[l]) })
			}
		}
		call(func() { _ = bip39.CheckMnemonic(strings.Join(words[:23], " "), Langs[l]) })
		e := entropyWithWindow(16, 0, i, 0x55)
		got, err := bip39.NewMnemonicByEntropy(e, Langs[l])
		want := m.Encode(e, l)
		fmt.Printf("after failing validations in %s: NewMnemonicByEntropy(%x) = %q err=%v\n expected: %q\n", ref.LangNames[l], e, got, err, want)
		return err == nil && got == want
	}
	replayers["big"] = func(m *ref.Model, cs map[string]interface{}) bool {
		unit, n := string(unhex(cs["unit"])), toInt(cs["repeat"])
		s := strings.Repeat(unit, n)
		pn := call(func() {
			_ = bip39.CheckMnemonic(s, bip39.English)
			_ = bip39.MnemonicToSeed(s, "")
			_ = bip39.MnemonicToSeed("x", s)
		})
		fmt.Printf("CheckMnemonic / MnemonicToSeed on %+q x %d: panic=%q\n", unit, n, pn)
		return pn == ""
	}
	replayers["langcall"] = func(m *ref.Model, cs map[string]interface{}) bool {
		v := toInt(cs["value"])
		lg := bip39.Language(v)
		valid := m.Encode(make([]byte, 16), 2)
		pn := call(func() {
			_ = lg.String()
			_ = bip39.CheckMnemonic(valid, lg)
			_ = bip39.IsMnemonicValid("zzz "+valid, lg)
			_, _ = bip39.NewMnemonicByEntropy(make([]byte, 20), lg)
			prev := bip39.VerifSwapRandSource(&countingReader{})
			defer bip39.VerifSwapRandSource(prev)
			_, _ = bip39.NewMnemonic(12, lg)
			_, _ = bip39.NewMnemonic(13, lg)
		})
		fmt.Printf("all entry points with Language(%d): panic=%q\n", v, pn)
		return pn == ""
	}
	replayers["sweep"] = func(m *ref.Model, cs map[string]interface{}) bool {
		prefix := string(unhex(cs["prefix"]))
		l, _ := strconv.Atoi(fmt.Sprint(cs["lang"]))
		words := strings.Split(prefix, " ")
		acc := 0
		for x := 0; x < 2048; x++ {
			if bip39.CheckMnemonic(prefix+" "+m.List[l][x], Langs[l]) == nil {
				acc++
			}
		}
		want := 1 << uint(11-(len(words)+1)/3)
		fmt.Printf("prefix %q (%s): %d of 2048 last words accepted, expected exactly %d\n", prefix, ref.LangNames[l], acc, want)
		return acc == want
	}
	for _, k := range []string{"injectivity", "list-digest", "source", "string-names", "generator-canonical"} {
		k := k
		replayers[k] = func(m *ref.Model, cs map[string]interface{}) bool {
			fmt.Printf("replay: a %q case is a statement about a whole list or scope; re-run the check (vcheck run <id>) to reproduce it\n", k)
			return true
		}
	}
}
