package main

import (
	"encoding/hex"
	"encoding/json"
	"fmt"
	"os"

	bip39 "github.com/islishude/bip39"

	"verif/internal/ref"
)

func init() { subcommands["replay"] = replayMain }

func unhex(v interface{}) []byte {
	s, _ := v.(string)
	b, _ := hex.DecodeString(s)
	return b
}

func toInt(v interface{}) int {
	f, _ := v.(float64)
	return int(f)
}

// replayers re-execute one recorded case without any explorer and report
// whether it still fails (exit 1) or passes now (exit 0).
var replayers = map[string]func(m *ref.Model, cs map[string]interface{}) bool{}

func replayMain(args []string) int {
	if len(args) < 1 {
		fmt.Fprintln(os.Stderr, "replay: need file")
		return 2
	}
	data, err := os.ReadFile(args[0])
	if err != nil {
		fmt.Fprintln(os.Stderr, err)
		return 2
	}
	var rep struct {
		Property string                 `json:"property"`
		Key      string                 `json:"key"`
		What     string                 `json:"what"`
		Case     map[string]interface{} `json:"case"`
	}
	if err := json.Unmarshal(data, &rep); err != nil {
		fmt.Fprintln(os.Stderr, err)
		return 2
	}
	verif := "/verif"
	if v := os.Getenv("VERIF_DIR"); v != "" {
		verif = v
	}
	m, err := ref.Load(verif + "/golden")
	if err != nil {
		fmt.Fprintln(os.Stderr, err)
		return 2
	}
	kind, _ := rep.Case["kind"].(string)
	f, ok := replayers[kind]
	if !ok {
		fmt.Fprintf(os.Stderr, "replay: no in-process replayer for case kind %q\n", kind)
		return 2
	}
	fmt.Printf("replaying %s %s\nrecorded: %s\n", rep.Property, rep.Key, rep.What)
	if f(m, rep.Case) {
		fmt.Println("replay: case passes on the current tree")
		return 0
	}
	fmt.Printf("VIOLATION property=%s replay=%s\n", rep.Property, args[0])
	return 1
}

func init() {
	replayers["encode"] = func(m *ref.Model, cs map[string]interface{}) bool {
		e, l := unhex(cs["entropy"]), toInt(cs["lang"])
		got, err := bip39.NewMnemonicByEntropy(e, Langs[l])
		want := m.Encode(e, l)
		fmt.Printf("NewMnemonicByEntropy(%x, %s)\n observed: %q err=%v\n expected: %q\n", e, ref.LangNames[l], got, err, want)
		return err == nil && got == want
	}
	replayers["check"] = func(m *ref.Model, cs map[string]interface{}) bool {
		s, l := string(unhex(cs["sentence"])), toInt(cs["lang"])
		var lg bip39.Language
		if v, ok := cs["langvalue"]; ok {
			lg = bip39.Language(toInt(v))
		} else {
			lg = Langs[l]
		}
		err := bip39.CheckMnemonic(s, lg)
		okb := bip39.IsMnemonicValid(s, lg)
		exp, _ := cs["expect"].(string)
		fmt.Printf("CheckMnemonic(%q, %v)\n observed: err=%v IsMnemonicValid=%v\n expected: %s\n", s, lg, err, okb, exp)
		switch exp {
		case "valid":
			return err == nil && okb
		case "reject":
			return err != nil && !okb
		case "ErrWordLen":
			return err != nil && errorsIs(err, bip39.ErrWordLen)
		case "ErrChecksumIncorrect":
			return err != nil && errorsIs(err, bip39.ErrChecksumIncorrect)
		case "unknown-word":
			return err != nil && !errorsIs(err, bip39.ErrWordLen) && !errorsIs(err, bip39.ErrChecksumIncorrect)
		}
		return (err == nil) == okb
	}
	replayers["seed"] = func(m *ref.Model, cs map[string]interface{}) bool {
		mn, pw := string(unhex(cs["mnemonic"])), string(unhex(cs["passphrase"]))
		got := bip39.MnemonicToSeed(mn, pw)
		want := unhex(cs["expected"])
		fmt.Printf("MnemonicToSeed(%q, %q)\n observed: %x\n expected: %x\n", mn, pw, got, want)
		return string(got) == string(want)
	}
}
