package main

import (
	"bytes"
	"fmt"
	"go/ast"
	"go/format"
	"go/parser"
	"go/printer"
	"go/token"
	"os"
	"path/filepath"
	"sort"
	"strings"
)

// The instrumenter (E-SCHED): produces, in scratch only, rewritten copies of
// the root package's non-test files in which
//   R1  the imports "sync" and "sync/atomic" are redirected to the shims
//       verifshim/vsync and verifshim/vatomic (same local names), and
//   R2  a call vsched.Acc(site) is inserted before every statement that
//       mentions a package-level variable of the package or of internal/wordlist,
// plus a generated file that registers the site table. The copies are handed to
// the go command through -overlay; nothing is written into the repository.

type access struct {
	Var  string
	Kind byte // 'R', 'W'
}

type site struct {
	id   int
	file string
	line int
	acc  []access
}

type extPkg struct {
	prefix string
	vars   map[string]bool
}

type instrumenter struct {
	pkgVars     map[string]bool                 // package-level variable names
	mapVars     map[string]bool                 // those whose declared type / initial value is syntactically a map
	extPkgs     map[*ast.File]map[string]extPkg // per file: local import name -> other package of the module
	sites       []*site
	unsupported map[string]bool
	extra       int // statements inserted that are not access sites (they need the import too)
	fset        *token.FileSet
	curFile     string
	curAST      *ast.File
	topSpecs    map[*ast.ValueSpec]bool
	pkgFuncs    map[string]bool // functions declared in the package
	pkgMethods  map[string]bool // method names declared in the package
	dense       bool            // a scheduling point before every statement, not only those that mention package-level variables
	hoisted     int
	tmpN        int
}

func (in *instrumenter) isPkgVar(id *ast.Ident) bool {
	if id == nil || !in.pkgVars[id.Name] {
		return false
	}
	if id.Obj == nil {
		return true // declared in another file of the package
	}
	if id.Obj.Kind != ast.Var {
		return false
	}
	vs, ok := id.Obj.Decl.(*ast.ValueSpec)
	return ok && in.topSpecs[vs]
}

// varOf returns the package-level variable an expression denotes directly
// ("name" or "wordlist.Name"), or "".
func (in *instrumenter) varOf(e ast.Expr) string {
	switch x := e.(type) {
	case *ast.Ident:
		if in.isPkgVar(x) {
			return x.Name
		}
	case *ast.ParenExpr:
		return in.varOf(x.X)
	case *ast.SelectorExpr:
		// an exported variable of another package of the module (e.g. wordlist.English)
		if id, ok := x.X.(*ast.Ident); ok && id.Obj == nil {
			if ext, ok := in.extPkgs[in.curAST][id.Name]; ok && ext.vars[x.Sel.Name] {
				return ext.prefix + "." + x.Sel.Name
			}
		}
	}
	return ""
}

type accSet struct {
	list []access
	seen map[string]bool
}

func (a *accSet) add(v string, k byte) {
	key := v + string(k)
	if a.seen == nil {
		a.seen = map[string]bool{}
	}
	if !a.seen[key] {
		a.seen[key] = true
		a.list = append(a.list, access{v, k})
	}
}

// reads collects the definite reads performed by evaluating e.
func (in *instrumenter) reads(e ast.Expr, a *accSet) {
	if e == nil {
		return
	}
	switch x := e.(type) {
	case *ast.Ident, *ast.SelectorExpr:
		if v := in.varOf(x); v != "" {
			a.add(v, 'R')
			return
		}
		if s, ok := x.(*ast.SelectorExpr); ok {
			if v := in.varOf(s.X); v != "" && !strings.Contains(v, ".") {
				// field of a package-level struct variable: its own location, so that different
				// fields guarded by different locks are not mistaken for one
				a.add(v+"."+s.Sel.Name, 'R')
				return
			}
			in.reads(s.X, a)
		}
	case *ast.ParenExpr:
		in.reads(x.X, a)
	case *ast.IndexExpr:
		if v := in.varOf(x.X); v != "" {
			a.add(v, 'R')
			if in.mapVars[v] {
				a.add(v+"[]", 'R')
			}
		} else {
			in.reads(x.X, a)
		}
		in.reads(x.Index, a)
	case *ast.SliceExpr:
		in.reads(x.X, a)
		in.reads(x.Low, a)
		in.reads(x.High, a)
		in.reads(x.Max, a)
	case *ast.StarExpr:
		in.reads(x.X, a)
	case *ast.UnaryExpr:
		if x.Op == token.AND {
			// address taken: what happens through the pointer is unknown ("may mutate"): no definite access
			if in.varOf(x.X) == "" {
				in.reads(x.X, a)
			}
			return
		}
		if x.Op == token.ARROW {
			in.unsupported["channel receive"] = true
		}
		in.reads(x.X, a)
	case *ast.BinaryExpr:
		in.reads(x.X, a)
		in.reads(x.Y, a)
	case *ast.CallExpr:
		if id, ok := x.Fun.(*ast.Ident); ok && id.Obj == nil && len(x.Args) >= 1 {
			switch id.Name {
			case "delete":
				if v := in.varOf(x.Args[0]); v != "" {
					a.add(v, 'R')
					if in.mapVars[v] {
						a.add(v+"[]", 'W')
					}
					for _, arg := range x.Args[1:] {
						in.reads(arg, a)
					}
					return
				}
			case "len", "cap":
				if v := in.varOf(x.Args[0]); v != "" {
					a.add(v, 'R')
					if in.mapVars[v] {
						a.add(v+"[]", 'R')
					}
					return
				}
			}
		}
		if sel, ok := x.Fun.(*ast.SelectorExpr); ok {
			if v := in.varOf(sel.X); v != "" && !strings.Contains(v, ".") {
				// method call on a package-level variable (e.g. Once.Do, Mutex.Lock, big.Int methods):
				// the receiver may be mutated; no definite access is recorded
			} else {
				in.reads(sel.X, a)
			}
		} else {
			in.reads(x.Fun, a)
		}
		for _, arg := range x.Args {
			in.reads(arg, a)
		}
	case *ast.CompositeLit:
		for _, el := range x.Elts {
			if kv, ok := el.(*ast.KeyValueExpr); ok {
				if _, isIdent := kv.Key.(*ast.Ident); !isIdent {
					in.reads(kv.Key, a)
				}
				in.reads(kv.Value, a)
			} else {
				in.reads(el, a)
			}
		}
	case *ast.KeyValueExpr:
		in.reads(x.Value, a)
	case *ast.TypeAssertExpr:
		in.reads(x.X, a)
	case *ast.FuncLit:
		// body runs later; its statements are instrumented on their own
	}
}

// writes records the effect of assigning to lhs.
func (in *instrumenter) writes(lhs ast.Expr, alsoRead bool, a *accSet) {
	switch x := lhs.(type) {
	case *ast.Ident:
		if in.isPkgVar(x) {
			a.add(x.Name, 'W')
			if alsoRead {
				a.add(x.Name, 'R')
			}
		}
	case *ast.ParenExpr:
		in.writes(x.X, alsoRead, a)
	case *ast.IndexExpr:
		if v := in.varOf(x.X); v != "" {
			a.add(v, 'R')
			if in.mapVars[v] {
				a.add(v+"[]", 'W')
			}
		} else {
			in.reads(x.X, a)
		}
		in.reads(x.Index, a)
	case *ast.SelectorExpr:
		if v := in.varOf(x); v != "" {
			a.add(v, 'W') // wordlist.X = ...
			return
		}
		if v := in.varOf(x.X); v != "" {
			a.add(v+"."+x.Sel.Name, 'W') // field of a package-level struct variable
			if alsoRead {
				a.add(v+"."+x.Sel.Name, 'R')
			}
			return
		}
		in.reads(x.X, a)
	case *ast.StarExpr:
		in.reads(x.X, a)
	default:
		in.reads(lhs, a)
	}
}

// own collects the accesses of the statement's own expressions (not of nested blocks).
func (in *instrumenter) own(s ast.Stmt, a *accSet) {
	switch x := s.(type) {
	case *ast.AssignStmt:
		for _, r := range x.Rhs {
			in.reads(r, a)
		}
		for _, l := range x.Lhs {
			if x.Tok == token.DEFINE {
				if id, ok := l.(*ast.Ident); ok && !in.isPkgVar(id) {
					continue
				}
			}
			in.writes(l, x.Tok != token.ASSIGN && x.Tok != token.DEFINE, a)
		}
	case *ast.IncDecStmt:
		in.writes(x.X, true, a)
	case *ast.ExprStmt:
		in.reads(x.X, a)
	case *ast.ReturnStmt:
		for _, r := range x.Results {
			in.reads(r, a)
		}
	case *ast.DeclStmt:
		if gd, ok := x.Decl.(*ast.GenDecl); ok {
			for _, sp := range gd.Specs {
				if vs, ok := sp.(*ast.ValueSpec); ok {
					for _, v := range vs.Values {
						in.reads(v, a)
					}
				}
			}
		}
	case *ast.IfStmt:
		if x.Init != nil {
			in.own(x.Init, a)
		}
		in.reads(x.Cond, a)
	case *ast.ForStmt:
		if x.Init != nil {
			in.own(x.Init, a)
		}
		in.reads(x.Cond, a)
	case *ast.RangeStmt:
		if v := in.varOf(x.X); v != "" {
			a.add(v, 'R')
			if in.mapVars[v] {
				a.add(v+"[]", 'R')
			}
		} else {
			in.reads(x.X, a)
		}
		if x.Tok == token.ASSIGN {
			if x.Key != nil {
				in.writes(x.Key, false, a)
			}
			if x.Value != nil {
				in.writes(x.Value, false, a)
			}
		}
	case *ast.SwitchStmt:
		if x.Init != nil {
			in.own(x.Init, a)
		}
		in.reads(x.Tag, a)
		for _, c := range x.Body.List {
			for _, e := range c.(*ast.CaseClause).List {
				in.reads(e, a)
			}
		}
	case *ast.TypeSwitchStmt:
		if x.Init != nil {
			in.own(x.Init, a)
		}
		in.own(x.Assign, a)
	case *ast.DeferStmt:
		in.reads(x.Call, a)
	case *ast.GoStmt:
		in.unsupported["go statement"] = true
		in.reads(x.Call, a)
	case *ast.SendStmt:
		in.unsupported["channel send"] = true
		in.reads(x.Value, a)
	case *ast.SelectStmt:
		// a select with a default clause never blocks: its channel operations are modelled as
		// synchronisation points (verifvsched.ChanSync, inserted by stmts/nested); any other select
		// could park a thread for real under the cooperative scheduler
		if chans, ok := nonBlockingSelect(x); !ok {
			in.unsupported["select"] = true
		} else {
			_ = chans
		}
	case *ast.LabeledStmt:
		in.own(x.Stmt, a)
	}
}

func (in *instrumenter) newSite(pos token.Pos, acc []access) ast.Stmt {
	p := in.fset.Position(pos)
	s := &site{id: len(in.sites) + 1, file: filepath.Base(p.Filename), line: p.Line, acc: acc}
	in.sites = append(in.sites, s)
	return &ast.ExprStmt{X: &ast.CallExpr{
		Fun:  &ast.SelectorExpr{X: ast.NewIdent("verifvsched"), Sel: ast.NewIdent("Acc")},
		Args: []ast.Expr{&ast.BasicLit{Kind: token.INT, Value: fmt.Sprint(s.id)}},
	}}
}

// mentionsPkgObject reports whether call has a package-level variable as its
// receiver or as a direct argument (an operation on a shared object).
func (in *instrumenter) mentionsPkgObject(call *ast.CallExpr) bool {
	// a call of a function or method declared in this package may touch shared state behind
	// locks of its own: the moment right after it returns is worth a scheduling point
	if id, ok := call.Fun.(*ast.Ident); ok && in.pkgFuncs[id.Name] && (id.Obj == nil || id.Obj.Kind == ast.Fun) {
		return true
	}
	if sel, ok := call.Fun.(*ast.SelectorExpr); ok && in.pkgMethods[sel.Sel.Name] {
		if _, isPkg := sel.X.(*ast.Ident); !isPkg || in.varOf(sel.X) != "" || true {
			return true
		}
	}
	if sel, ok := call.Fun.(*ast.SelectorExpr); ok {
		if v := in.varOf(sel.X); v != "" && !strings.Contains(v, ".") {
			return true
		}
	}
	for _, a := range call.Args {
		if in.varOf(a) != "" {
			return true
		}
		if u, ok := a.(*ast.UnaryExpr); ok && u.Op == token.AND && in.varOf(u.X) != "" {
			return true
		}
	}
	return false
}

// firstNestedCall finds the call expression of e that is executed first
// (leftmost innermost in lexical order) provided it is nested inside another
// call; parent is the expression slot holding it. Function literals and
// anything after a short-circuit operator are not entered.
func firstNestedCall(e ast.Expr, depth int) (slot *ast.Expr, call *ast.CallExpr, ok bool) {
	var visit func(p *ast.Expr, depth int) (*ast.Expr, *ast.CallExpr, bool, bool) // slot, call, found, stop
	visit = func(p *ast.Expr, depth int) (*ast.Expr, *ast.CallExpr, bool, bool) {
		switch x := (*p).(type) {
		case *ast.CallExpr:
			// receiver / function expression first, then arguments, left to right
			if sel, ok := x.Fun.(*ast.SelectorExpr); ok {
				if s, c, f, stop := visit(&sel.X, depth+1); f || stop {
					return s, c, f, stop
				}
			} else if _, isIdent := x.Fun.(*ast.Ident); !isIdent {
				return nil, nil, false, true // computed function value: leave alone
			}
			for i := range x.Args {
				if s, c, f, stop := visit(&x.Args[i], depth+1); f || stop {
					return s, c, f, stop
				}
			}
			if depth > 0 {
				return p, x, true, false
			}
			return nil, nil, false, true // the outermost call itself runs first: nothing to split
		case *ast.ParenExpr:
			return visit(&x.X, depth)
		case *ast.SelectorExpr:
			return visit(&x.X, depth)
		case *ast.StarExpr:
			return visit(&x.X, depth)
		case *ast.UnaryExpr:
			if x.Op == token.ARROW {
				return nil, nil, false, true
			}
			return visit(&x.X, depth)
		case *ast.BinaryExpr:
			if s, c, f, stop := visit(&x.X, depth); f || stop {
				return s, c, f, stop
			}
			if x.Op == token.LAND || x.Op == token.LOR {
				return nil, nil, false, true // right operand is conditional
			}
			return visit(&x.Y, depth)
		case *ast.IndexExpr:
			if s, c, f, stop := visit(&x.X, depth); f || stop {
				return s, c, f, stop
			}
			return visit(&x.Index, depth)
		case *ast.FuncLit, *ast.CompositeLit, *ast.TypeAssertExpr, *ast.SliceExpr, *ast.KeyValueExpr:
			return nil, nil, false, true
		}
		return nil, nil, false, false
	}
	s, c, f, _ := visit(&e, depth)
	if f && s != &e {
		return s, c, true
	}
	return nil, nil, false
}

// hoist splits the first-executed nested call out of an expression statement
// when that call operates on a package-level object:
//
//	X.F(a, pkgObj.M(b))   =>   verifTmpN := pkgObj.M(b); Acc(site); X.F(a, verifTmpN)
//
// The Go specification leaves the order of plain operand reads relative to
// function calls unspecified, and the hoisted call is the first call the
// statement executes anyway, so every behaviour of the rewritten statement is a
// behaviour of the original one.
func (in *instrumenter) hoist(s ast.Stmt) []ast.Stmt {
	es, ok := s.(*ast.ExprStmt)
	var target *ast.Expr
	if ok {
		target = &es.X
	} else if as, ok := s.(*ast.AssignStmt); ok && len(as.Rhs) == 1 && len(as.Lhs) == 1 {
		if _, isIdent := as.Lhs[0].(*ast.Ident); isIdent {
			target = &as.Rhs[0]
		}
	}
	if rs, ok := s.(*ast.ReturnStmt); ok && target == nil {
		// the first result that is a call (results are evaluated left to right; plain operands
		// before it cannot contain calls, or they would be that first call)
		for i := range rs.Results {
			if _, isCall := rs.Results[i].(*ast.CallExpr); isCall {
				target = &rs.Results[i]
				break
			}
			hasCall := false
			ast.Inspect(rs.Results[i], func(n ast.Node) bool {
				if _, ok := n.(*ast.CallExpr); ok {
					hasCall = true
				}
				return !hasCall
			})
			if hasCall {
				break
			}
		}
	}
	if target == nil {
		return nil
	}
	outer, isCall := (*target).(*ast.CallExpr)
	if !isCall {
		return nil
	}
	slot, call, found := firstNestedCall(outer, 0)
	if !found || !in.mentionsPkgObject(call) {
		return nil
	}
	// a call that is the only argument of its parent might be multi-valued: leave it
	if len(outer.Args) == 1 && &outer.Args[0] == slot {
		return nil
	}
	in.tmpN++
	in.hoisted++
	tmp := ast.NewIdent(fmt.Sprintf("verifTmp%d", in.tmpN))
	assign := &ast.AssignStmt{Lhs: []ast.Expr{tmp}, Tok: token.DEFINE, Rhs: []ast.Expr{call}}
	var a accSet
	in.own(assign, &a)
	pre := in.newSite(s.Pos(), a.list)
	*slot = ast.NewIdent(tmp.Name)
	return []ast.Stmt{pre, assign}
}

// stmts rewrites one statement list.
func (in *instrumenter) stmts(list []ast.Stmt) []ast.Stmt {
	var out []ast.Stmt
	for _, s := range list {
		if pre := in.hoist(s); pre != nil {
			out = append(out, pre...)
		}
		var a accSet
		in.own(s, &a)
		if len(a.list) > 0 || in.dense {
			if _, isDecl := s.(*ast.DeclStmt); !isDecl || len(a.list) > 0 {
				out = append(out, in.newSite(s.Pos(), a.list))
			}
		}
		if sel, ok := s.(*ast.SelectStmt); ok {
			if chans, ok := nonBlockingSelect(sel); ok {
				for _, ch := range chans {
					out = append(out, in.chanSync(ch))
				}
			}
		}
		in.nested(s)
		out = append(out, s)
	}
	return out
}

// nonBlockingSelect reports whether sel has a default clause and all its channel operands are plain
// identifiers or selector chains (safe to evaluate twice); it returns those operands, one per comm clause
// (nil for the default clause).
func nonBlockingSelect(sel *ast.SelectStmt) ([]ast.Expr, bool) {
	hasDefault := false
	var chans []ast.Expr
	for _, c := range sel.Body.List {
		cc := c.(*ast.CommClause)
		if cc.Comm == nil {
			hasDefault = true
			continue
		}
		var ch ast.Expr
		switch st := cc.Comm.(type) {
		case *ast.SendStmt:
			ch = st.Chan
		case *ast.ExprStmt:
			if u, ok := st.X.(*ast.UnaryExpr); ok && u.Op == token.ARROW {
				ch = u.X
			}
		case *ast.AssignStmt:
			if len(st.Rhs) == 1 {
				if u, ok := st.Rhs[0].(*ast.UnaryExpr); ok && u.Op == token.ARROW {
					ch = u.X
				}
			}
		}
		if !simpleOperand(ch) {
			return nil, false
		}
		chans = append(chans, ch)
	}
	return chans, hasDefault
}

func simpleOperand(e ast.Expr) bool {
	switch x := e.(type) {
	case *ast.Ident:
		return true
	case *ast.SelectorExpr:
		return simpleOperand(x.X)
	}
	return false
}

// chanSync builds the statement verifvsched.ChanSync(<ch>).
func (in *instrumenter) chanSync(ch ast.Expr) ast.Stmt {
	in.extra++
	var b bytes.Buffer
	printer.Fprint(&b, token.NewFileSet(), ch)
	e, err := parser.ParseExpr(b.String())
	if err != nil {
		e = ast.NewIdent("nil")
	}
	return &ast.ExprStmt{X: &ast.CallExpr{
		Fun:  &ast.SelectorExpr{X: ast.NewIdent("verifvsched"), Sel: ast.NewIdent("ChanSync")},
		Args: []ast.Expr{e},
	}}
}

// funcLits instruments the bodies of function literals occurring in expressions of s.
func (in *instrumenter) funcLits(n ast.Node) {
	if n == nil {
		return
	}
	ast.Inspect(n, func(x ast.Node) bool {
		switch y := x.(type) {
		case *ast.FuncLit:
			y.Body.List = in.stmts(y.Body.List)
			return false
		case *ast.BlockStmt:
			return false // nested blocks are handled by nested()
		}
		return true
	})
}

func (in *instrumenter) block(b *ast.BlockStmt) {
	if b != nil {
		b.List = in.stmts(b.List)
	}
}

// nested recurses into the blocks and function literals of s.
func (in *instrumenter) nested(s ast.Stmt) {
	switch x := s.(type) {
	case *ast.BlockStmt:
		in.block(x)
	case *ast.IfStmt:
		in.funcLits(x.Init)
		in.funcLits(x.Cond)
		in.block(x.Body)
		if x.Else != nil {
			if eb, ok := x.Else.(*ast.BlockStmt); ok {
				in.block(eb)
			} else {
				// else-if: wrap so that its own Acc has a statement list to live in
				wrapped := &ast.BlockStmt{List: in.stmts([]ast.Stmt{x.Else})}
				x.Else = wrapped
			}
		}
	case *ast.ForStmt:
		in.funcLits(x.Init)
		in.funcLits(x.Cond)
		in.funcLits(x.Post)
		in.block(x.Body)
		// condition / post statement are re-evaluated on every iteration
		var a accSet
		in.reads(x.Cond, &a)
		if x.Post != nil {
			in.own(x.Post, &a)
		}
		if len(a.list) > 0 {
			x.Body.List = append([]ast.Stmt{in.newSite(x.Pos(), a.list)}, x.Body.List...)
		}
	case *ast.RangeStmt:
		in.funcLits(x.X)
		in.block(x.Body)
	case *ast.SwitchStmt:
		in.funcLits(x.Init)
		in.funcLits(x.Tag)
		for _, c := range x.Body.List {
			cc := c.(*ast.CaseClause)
			cc.Body = in.stmts(cc.Body)
		}
	case *ast.TypeSwitchStmt:
		for _, c := range x.Body.List {
			cc := c.(*ast.CaseClause)
			cc.Body = in.stmts(cc.Body)
		}
	case *ast.SelectStmt:
		chans, nb := nonBlockingSelect(x)
		k := 0
		for _, c := range x.Body.List {
			cc := c.(*ast.CommClause)
			cc.Body = in.stmts(cc.Body)
			if cc.Comm != nil {
				if nb && k < len(chans) {
					cc.Body = append([]ast.Stmt{in.chanSync(chans[k])}, cc.Body...)
				}
				k++
			}
		}
	case *ast.LabeledStmt:
		in.nested(x.Stmt)
	default:
		in.funcLits(s)
	}
}

// instrumentPackage returns overlay entries for the instrumented package and
// a summary for the evidence.
func instrumentPackage(dense bool) (map[string]string, map[string]interface{}) {
	pkgs := modulePackages()
	in := &instrumenter{unsupported: map[string]bool{}, fset: token.NewFileSet(), dense: dense}
	byImport := map[string]modPkg{}
	for _, p := range pkgs {
		byImport[p.importPath] = p
	}
	overlay := map[string]string{}
	redirected := 0
	nvars := 0
	for pi, p := range pkgs {
		in.pkgVars, in.mapVars = map[string]bool{}, map[string]bool{}
		in.extPkgs = map[*ast.File]map[string]extPkg{}
		in.topSpecs = map[*ast.ValueSpec]bool{}
		in.pkgFuncs, in.pkgMethods = map[string]bool{}, map[string]bool{}
		for _, v := range p.vars {
			in.pkgVars[v] = true
		}
		nvars += len(p.vars)
		firstSite := len(in.sites)
		var asts []*ast.File
		for _, name := range p.files {
			f, err := parser.ParseFile(in.fset, filepath.Join(p.dir, name), nil, parser.ParseComments)
			if err != nil {
				die("%v", err)
			}
			asts = append(asts, f)
			for _, d := range f.Decls {
				if fd, ok := d.(*ast.FuncDecl); ok {
					if fd.Recv == nil {
						in.pkgFuncs[fd.Name.Name] = true
					} else {
						in.pkgMethods[fd.Name.Name] = true
					}
				}
			}
			for _, d := range f.Decls {
				gd, ok := d.(*ast.GenDecl)
				if !ok || gd.Tok != token.VAR {
					continue
				}
				for _, sp := range gd.Specs {
					vs := sp.(*ast.ValueSpec)
					in.topSpecs[vs] = true
					isMap := false
					if _, ok := vs.Type.(*ast.MapType); ok {
						isMap = true
					}
					for i, id := range vs.Names {
						m := isMap
						if i < len(vs.Values) {
							switch v := vs.Values[i].(type) {
							case *ast.CompositeLit:
								if _, ok := v.Type.(*ast.MapType); ok {
									m = true
								}
							case *ast.CallExpr:
								if fn, ok := v.Fun.(*ast.Ident); ok && fn.Name == "make" && len(v.Args) > 0 {
									if _, ok := v.Args[0].(*ast.MapType); ok {
										m = true
									}
								}
							}
						}
						if m {
							in.mapVars[id.Name] = true
						}
					}
				}
			}
			in.extPkgs[f] = map[string]extPkg{}
			for _, im := range f.Imports {
				ip := strings.Trim(im.Path.Value, "\"")
				if other, ok := byImport[ip]; ok && other.importPath != p.importPath {
					n := other.name
					if im.Name != nil {
						n = im.Name.Name
					}
					ev := map[string]bool{}
					for _, v := range other.exported {
						ev[v] = true
					}
					in.extPkgs[f][n] = extPkg{prefix: filepath.Base(other.rel), vars: ev}
				}
			}
		}
		for i, f := range asts {
			name := p.files[i]
			in.curFile, in.curAST = name, f
			before := len(in.sites)
			beforeExtra := in.extra
			for _, d := range f.Decls {
				if fd, ok := d.(*ast.FuncDecl); ok && fd.Body != nil {
					fd.Body.List = in.stmts(fd.Body.List)
				}
			}
			ast.Inspect(f, func(n ast.Node) bool {
				switch n.(type) {
				case *ast.ChanType:
					// a channel as such is fine; blocking operations on it are what the scheduler cannot
					// model (flagged where they occur: send / receive outside a select with default)
				}
				if se, ok := n.(*ast.SelectorExpr); ok {
					if id, ok := se.X.(*ast.Ident); ok && id.Name == "sync" && (se.Sel.Name == "Cond" || se.Sel.Name == "NewCond") {
						in.unsupported["sync.Cond"] = true
					}
				}
				return true
			})
			changed := len(in.sites) > before || in.extra > beforeExtra
			for _, im := range f.Imports {
				switch im.Path.Value {
				case `"sync"`:
					im.Path.Value = `"verifshim/vsync"`
					if im.Name == nil {
						im.Name = ast.NewIdent("sync")
					}
					changed = true
					redirected++
				case `"sync/atomic"`:
					im.Path.Value = `"verifshim/vatomic"`
					if im.Name == nil {
						im.Name = ast.NewIdent("atomic")
					}
					changed = true
					redirected++
				}
			}
			if !changed {
				continue
			}
			if len(in.sites) > before || in.extra > beforeExtra {
				spec := &ast.ImportSpec{Name: ast.NewIdent("verifvsched"), Path: &ast.BasicLit{Kind: token.STRING, Value: `"verifshim/vsched"`}}
				decl := &ast.GenDecl{Tok: token.IMPORT, Specs: []ast.Spec{spec}}
				// imports must come first
				f.Decls = append([]ast.Decl{decl}, f.Decls...)
				f.Imports = append(f.Imports, spec)
			}
			var b bytes.Buffer
			if err := format.Node(&b, in.fset, f); err != nil {
				die("printing instrumented %s: %v", name, err)
			}
			tag := "instr_"
			if dense {
				tag = "instrd_"
			}
			dst := filepath.Join(scratch, fmt.Sprintf("%s%d_%s", tag, pi, name))
			if pi == 0 {
				dst = filepath.Join(scratch, tag+name)
			}
			if err := os.WriteFile(dst, b.Bytes(), 0644); err != nil {
				die("%v", err)
			}
			overlay[filepath.Join(p.dir, name)] = dst
		}
		if len(in.sites) == firstSite {
			continue
		}
		// site table of this package
		var b bytes.Buffer
		b.WriteString("// Code generated by vcheck (instrumenter); never written into the repository.\n\n//go:build verif\n// +build verif\n\npackage " + p.name + "\n\nimport verifvsched \"verifshim/vsched\"\n\nfunc init() {\n")
		for _, st := range in.sites[firstSite:] {
			file := st.file
			if pi != 0 {
				file = filepath.ToSlash(filepath.Join(p.rel, st.file))
			}
			fmt.Fprintf(&b, "\tverifvsched.RegisterSite(%d, %q, %d, []verifvsched.Access{", st.id, file, st.line)
			for _, a := range st.acc {
				fmt.Fprintf(&b, "{Var: %q, Kind: %q}, ", a.Var, a.Kind)
			}
			b.WriteString("})\n")
		}
		b.WriteString("}\n")
		genName := fmt.Sprintf("zz_verif_sites_gen_%d.go", pi)
		if dense {
			genName = fmt.Sprintf("zz_verif_sites_dense_gen_%d.go", pi)
		}
		gen := filepath.Join(scratch, genName)
		if err := os.WriteFile(gen, b.Bytes(), 0644); err != nil {
			die("%v", err)
		}
		overlay[filepath.Join(p.dir, "zz_verif_sites_gen.go")] = gen
	}
	vars := make([]string, nvars)
	var uns []string
	for k := range in.unsupported {
		uns = append(uns, k)
	}
	sort.Strings(uns)
	var sampleSites []string
	for i, s := range in.sites {
		if i < 6 {
			var as []string
			for _, a := range s.acc {
				as = append(as, fmt.Sprintf("%c %s", a.Kind, a.Var))
			}
			sampleSites = append(sampleSites, fmt.Sprintf("%s:%d {%s}", s.file, s.line, strings.Join(as, ", ")))
		}
	}
	info := map[string]interface{}{
		"instrumented_sites":                        len(in.sites),
		"packages_instrumented":                     len(pkgs),
		"nested_calls_on_package_objects_split_out": in.hoisted,
		"sync_imports_redirected":                   redirected,
		"unmodelled_sync_constructs":                uns,
		"sample_sites":                              sampleSites,
		"package_level_variables":                   len(vars),
		"map_typed_variables_tracked":               len(in.mapVars),
	}
	return overlay, info
}
