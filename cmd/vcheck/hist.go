package main

import (
	"encoding/json"
	"fmt"
	"os/exec"
	"runtime"
	"sort"
	"strings"
	"sync"
	"time"
)

func init() {
	special["C13"] = runC13
	special["C07"] = runC07
	specialReplay["C13"] = replayHist
	specialReplay["C07"] = replayHist
}

type histStep struct {
	Op      string `json:"op"`
	Outcome string `json:"outcome"`
	FP      string `json:"fp"`
	Rest    string `json:"rest"`
}

type histOut struct {
	Initial       string     `json:"initial"`
	InitialRest   string     `json:"initial_rest"`
	Steps         []histStep `json:"steps"`
	Lazy          string     `json:"lazy"`
	Intact        string     `json:"intact"`
	SourceDefault bool       `json:"source_default"`
	SourceType    string     `json:"source_type"`
	SourceAtStart bool       `json:"source_default_at_start"`
}

// runHistory executes one call history in a fresh worker process.
func runHistory(worker string, ops []string) (*histOut, error) {
	cmd := exec.Command(worker, "-prop", "hist", strings.Join(ops, ","))
	cmd.Env = append(goEnv(), "VERIF_DIR="+verifDir, "GOMAXPROCS=2", "VERIF_FP_FROM=-2")
	out, err := cmd.Output()
	if err != nil {
		return nil, fmt.Errorf("history %v: %v", ops, err)
	}
	var h histOut
	if err := json.Unmarshal(out, &h); err != nil {
		return nil, fmt.Errorf("history %v: bad output: %v", ops, err)
	}
	if len(h.Steps) != len(ops) {
		return nil, fmt.Errorf("history %v: %d steps reported", ops, len(h.Steps))
	}
	return &h, nil
}

// parallelHist runs many histories on all cores, preserving order.
func parallelHist(worker string, hs [][]string) ([]*histOut, error) {
	res := make([]*histOut, len(hs))
	errs := make([]error, len(hs))
	var wg sync.WaitGroup
	ch := make(chan int, len(hs))
	for i := range hs {
		ch <- i
	}
	close(ch)
	for w := 0; w < runtime.NumCPU(); w++ {
		wg.Add(1)
		go func() {
			defer wg.Done()
			for i := range ch {
				res[i], errs[i] = runHistory(worker, hs[i])
			}
		}()
	}
	wg.Wait()
	for _, e := range errs {
		if e != nil {
			return nil, e
		}
	}
	return res, nil
}

type histExplorer struct {
	worker      string
	prop        string
	ops         []string
	baseline    map[string]string // op -> outcome in the initial state
	res         *Result
	transitions int64
	states      map[string][]string // fingerprint -> shortest history
	order       []string
	lazyOf      map[string]string
	maxStates   int
	checkSource bool
	distinctOut map[string]bool
}

func (e *histExplorer) violate(key, what string, hist []string) {
	e.res.ViolationCount++
	if len(e.res.Violations) < 40 {
		e.res.Violations = append(e.res.Violations, Violation{Key: key, What: what, Case: map[string]interface{}{"kind": "history", "ops": strings.Join(hist, ",")}})
	}
}

// checkRun applies the per-execution oracle to one executed history.
func (e *histExplorer) checkRun(hist []string, h *histOut) {
	for i, st := range h.Steps {
		want, ok := e.baseline[st.Op]
		if ok && st.Outcome != want {
			e.violate(fmt.Sprintf("hist:%s", strings.Join(hist[:i+1], ",")),
				fmt.Sprintf("after history [%s] the call %s returns %q, but %q in a fresh process", strings.Join(hist[:i], ","), st.Op, st.Outcome, want), hist[:i+1])
		}
		e.distinctOut[st.Op+"="+st.Outcome] = true
	}
	if h.Intact != "" {
		e.violate("mutated:"+strings.Join(hist, ","), "after history ["+strings.Join(hist, ",")+"]: "+h.Intact, hist)
	}
	if e.checkSource && (!h.SourceAtStart || !h.SourceDefault) {
		e.violate("source:"+strings.Join(hist, ","),
			fmt.Sprintf("randomness source is not crypto/rand.Reader (at start: %v, after history [%s]: %v, dynamic type %s)", h.SourceAtStart, strings.Join(hist, ","), h.SourceDefault, h.SourceType), hist)
	}
}

// explore is a breadth-first search over call histories to a fixpoint of the
// set of package-state fingerprints.
func (e *histExplorer) explore() error {
	// baseline: every op alone in a fresh process
	var hs [][]string
	for _, op := range e.ops {
		hs = append(hs, []string{op})
	}
	hs = append(hs, []string{})
	outs, err := parallelHist(e.worker, hs)
	if err != nil {
		return err
	}
	init := outs[len(outs)-1]
	e.states = map[string][]string{init.Initial: {}}
	e.lazyOf = map[string]string{init.Initial: ""}
	e.order = []string{init.Initial}
	e.checkRun(nil, init)
	for i, op := range e.ops {
		e.baseline[op] = outs[i].Steps[0].Outcome
	}
	// determinism of the baseline: run it a second time
	outs2, err := parallelHist(e.worker, hs[:len(e.ops)])
	if err != nil {
		return err
	}
	for i, op := range e.ops {
		if outs2[i].Steps[0].Outcome != e.baseline[op] && !strings.HasPrefix(op, "ND") {
			return fmt.Errorf("operation %s is not deterministic in a fresh process: %q vs %q", op, outs2[i].Steps[0].Outcome, e.baseline[op])
		}
		if outs2[i].Initial != init.Initial {
			return fmt.Errorf("initial state fingerprint is not deterministic")
		}
	}
	frontier := []string{init.Initial}
	for len(frontier) > 0 {
		var batch [][]string
		for _, fp := range frontier {
			for _, op := range e.ops {
				batch = append(batch, append(append([]string(nil), e.states[fp]...), op))
			}
		}
		outs, err := parallelHist(e.worker, batch)
		if err != nil {
			return err
		}
		var next []string
		for i, h := range outs {
			e.transitions++
			hist := batch[i]
			// replay determinism: the prefix must lead to the recorded state
			if len(hist) > 1 {
				prefixFP := h.Steps[len(hist)-2].FP
				if _, ok := e.states[prefixFP]; !ok {
					return fmt.Errorf("replaying history %v reached an unknown state (non-deterministic state)", hist[:len(hist)-1])
				}
			}
			e.checkRun(hist, h)
			fp := h.Steps[len(hist)-1].FP
			if _, seen := e.states[fp]; !seen {
				if len(e.states) >= e.maxStates {
					e.res.Exhaustive = false
					continue
				}
				e.states[fp] = hist
				e.lazyOf[fp] = h.Lazy
				e.order = append(e.order, fp)
				next = append(next, fp)
			}
		}
		frontier = next
	}
	return nil
}

var allLangs = []int{0, 1, 2, 3, 4, 5, 6, 7, 8, 9}

func histOps(kinds []string, langs []int) []string {
	var ops []string
	for _, l := range langs {
		for _, k := range kinds {
			ops = append(ops, fmt.Sprintf("%s:%d", k, l))
		}
	}
	return ops
}

func newHistResult(prop, tier string) *Result {
	return &Result{Property: prop, Tier: tier, Extra: map[string]interface{}{}, KnownHits: map[string]int64{}, Exhaustive: true, Samples: []interface{}{}, Violations: []Violation{}}
}

func runC13(tier string) int {
	t0 := time.Now()
	w := buildWorker()
	r := newHistResult("C13", tier)
	kinds := []string{"CV", "IV", "CB", "CF", "CW", "CZ", "GE", "GB", "NW", "NF", "NB", "SD", "ST"}
	langs := []int{2, 5, 8, 9, 10}
	maxStates := 64
	if tier == "thorough" {
		langs = []int{0, 1, 2, 3, 4, 5, 6, 7, 8, 9, 10, -1}
		maxStates = 4096
	}
	e := &histExplorer{worker: w, prop: "C13", ops: histOps(kinds, langs), baseline: map[string]string{}, res: r, maxStates: maxStates, distinctOut: map[string]bool{}}
	if err := e.explore(); err != nil {
		die("%v", err)
	}
	// complete 10 x 10 ordered first-use matrix: first two table-building calls, then every language
	var matrix [][]string
	tailKinds := []string{"CV", "CB", "CZ"}
	fullBase := map[string]string{}
	var tailOps []string
	for _, l := range allLangs {
		for _, k := range tailKinds {
			tailOps = append(tailOps, fmt.Sprintf("%s:%d", k, l))
		}
	}
	var baseH [][]string
	for _, op := range tailOps {
		if _, ok := e.baseline[op]; !ok {
			baseH = append(baseH, []string{op})
		}
	}
	bo, err := parallelHist(w, baseH)
	if err != nil {
		die("%v", err)
	}
	for i, h := range bo {
		fullBase[baseH[i][0]] = h.Steps[0].Outcome
	}
	for k, v := range fullBase {
		e.baseline[k] = v
	}
	firstKinds := []string{"CV", "CB"}
	if tier == "thorough" {
		firstKinds = []string{"CV", "CB", "CF", "IV"}
	}
	for _, k1 := range firstKinds {
		for _, a := range allLangs {
			for _, b := range allLangs {
				h := []string{fmt.Sprintf("%s:%d", k1, a), fmt.Sprintf("CV:%d", b)}
				h = append(h, tailOps...)
				matrix = append(matrix, h)
			}
		}
	}
	mo, err := parallelHist(w, matrix)
	if err != nil {
		die("%v", err)
	}
	for i, h := range mo {
		e.transitions += int64(len(matrix[i]))
		e.checkRun(matrix[i], h)
	}
	r.States = int64(len(e.states))
	r.Transitions = e.transitions
	r.Evaluations = e.transitions
	r.Distinct = int64(len(e.distinctOut))
	r.Rule = "explicit-state BFS over call histories: alphabet = 13 operation kinds (valid/invalid validations, encodings, NewMnemonic over a scripted source swapped in and out, failing source, seed, String) x languages (quick: English, Japanese, Czech, Portuguese + unsupported 10; thorough: all ten + unsupported 10 and -1); every transition is executed in a fresh OS process by replaying the shortest history to the source state and then the operation; state = SHA-256 of a canonical dump of every package-level variable of bip39 and internal/wordlist; search runs to a fixpoint; plus the complete ordered first-use matrix (10x10 ordered language pairs, each followed by valid/invalid validations in all ten languages). Oracle per executed call: outcome (value, error class and text, panic) equals the outcome of the same call in a fresh process; caller buffers and earlier results unchanged at the end of the history. distinct_nontrivial = distinct (operation, outcome) pairs observed"
	r.Extra["operations"] = len(e.ops)
	r.Extra["first_use_matrix_histories"] = len(matrix)
	r.Extra["reached_fixpoint"] = r.Exhaustive
	var lz []string
	for _, fp := range e.order {
		lz = append(lz, e.lazyOf[fp])
	}
	sort.Strings(lz)
	if len(lz) > 6 {
		lz = append(lz[:3], lz[len(lz)-3:]...)
	}
	r.Extra["sample_states_lazy_tables_built"] = lz
	for i, fp := range e.order {
		if i == 1 || i == len(e.order)-1 {
			r.Samples = append(r.Samples, map[string]interface{}{"state": fp, "shortest_history": strings.Join(e.states[fp], ","), "tables_built": e.lazyOf[fp]})
		}
	}
	r.Samples = append(r.Samples, map[string]interface{}{"first_use_history": strings.Join(matrix[37][:5], ",") + ",..."})
	r.Assumptions = []string{"dependencies (x/text, x/crypto, math/big, crypto/*) keep no observable state across calls: state outside package-level variables of bip39/internal/wordlist is not fingerprinted", "one fresh OS process = a process that has not used the package yet"}
	r.Extra["traces_validated_against_impl"] = e.transitions
	return finish("C13", tier, r, t0)
}

func runC07(tier string) int {
	t0 := time.Now()
	w := buildWorker()
	r := newHistResult("C07", tier)
	kinds := []string{"CV", "CB", "GE", "GB", "NB", "SD", "ST", "ND"}
	langs := []int{2, 5, 9, 10}
	maxStates := 64
	if tier == "thorough" {
		langs = []int{0, 1, 2, 3, 4, 5, 6, 7, 8, 9, 10, -1}
		maxStates = 4096
	}
	ops := histOps(kinds, langs)
	for _, n := range []int{15, 18, 21, 24} {
		ops = append(ops, fmt.Sprintf("ND:%d:%d", langs[n%len(langs)], n))
	}
	e := &histExplorer{worker: w, prop: "C07", ops: ops, baseline: map[string]string{}, res: r, maxStates: maxStates, checkSource: true, distinctOut: map[string]bool{}}
	if err := e.explore(); err != nil {
		die("%v", err)
	}
	r.States = int64(len(e.states))
	r.Transitions = e.transitions
	r.Evaluations = e.transitions
	r.Distinct = int64(len(e.distinctOut))
	r.Rule = "explicit-state BFS over call histories that never swap the randomness source (validations, encodings, rejected calls, seed, String, and NewMnemonic on the default source for all five counts); every transition executed in a fresh process; state = fingerprint of all package-level variables; invariant checked at every process start and after every history: the value held by the package's source variable (read through the verif hook, then restored) is identical (==) to crypto/rand.Reader. That NewMnemonic's output is a function of the source's bytes only is decided by C06 for every injected source. distinct_nontrivial = distinct (operation, outcome) pairs observed"
	r.Extra["operations"] = len(ops)
	r.Extra["reached_fixpoint"] = r.Exhaustive
	r.Extra["traces_validated_against_impl"] = e.transitions
	for i, fp := range e.order {
		if i == 1 || i == len(e.order)-1 {
			r.Samples = append(r.Samples, map[string]interface{}{"state": fp, "shortest_history": strings.Join(e.states[fp], ","), "tables_built": e.lazyOf[fp], "source": "crypto/rand.Reader"})
		}
	}
	r.Assumptions = []string{"statistical quality of the OS CSPRNG is out of scope; identity with crypto/rand.Reader plus C06's byte-exact dependence reduce it to the operating system", "crypto/rand.Reader itself is not replaced by the package (its dynamic type is recorded)"}
	return finish("C07", tier, r, t0)
}

// replayHist re-executes a recorded history without the explorer.
func replayHist(path string) int {
	data, err := readFile(path)
	if err != nil {
		die("%v", err)
	}
	var rep struct {
		Property string `json:"property"`
		What     string `json:"what"`
		Case     struct {
			Ops string `json:"ops"`
		} `json:"case"`
	}
	if err := json.Unmarshal(data, &rep); err != nil {
		die("%v", err)
	}
	w := buildWorker()
	ops := strings.Split(rep.Case.Ops, ",")
	h, err := runHistory(w, ops)
	if err != nil {
		die("%v", err)
	}
	fmt.Printf("replaying %s history [%s]\nrecorded: %s\n", rep.Property, rep.Case.Ops, rep.What)
	bad := false
	for i, st := range h.Steps {
		alone, err := runHistory(w, []string{st.Op})
		if err != nil {
			die("%v", err)
		}
		mark := ""
		if alone.Steps[0].Outcome != st.Outcome && !strings.HasPrefix(st.Op, "ND") {
			mark = "   <-- differs from fresh process: " + alone.Steps[0].Outcome
			bad = true
		}
		fmt.Printf(" %2d %-8s %s%s\n", i, st.Op, st.Outcome, mark)
	}
	if h.Intact != "" {
		fmt.Println(" " + h.Intact)
		bad = true
	}
	if rep.Property == "C07" && (!h.SourceAtStart || !h.SourceDefault) {
		fmt.Printf(" source is default at start: %v, after history: %v (%s)\n", h.SourceAtStart, h.SourceDefault, h.SourceType)
		bad = true
	}
	if bad {
		fmt.Printf("VIOLATION property=%s replay=%s\n", rep.Property, path)
		return 1
	}
	fmt.Println("replay: history passes on the current tree")
	return 0
}
