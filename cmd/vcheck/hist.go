package main

import (
	"encoding/json"
	"fmt"
	"os"
	"os/exec"
	"runtime"
	"sort"
	"strings"
	"sync"
	"time"
)

func init() {
	special["C13"] = runC13
	special["C07"] = runC07
	specialReplay["C13"] = replayHist
	specialReplay["C07"] = replayHist
}

type histStep struct {
	Op      string            `json:"op"`
	Outcome string            `json:"outcome"`
	FP      string            `json:"fp"`
	Rest    string            `json:"rest"`
	Per     map[string]string `json:"per,omitempty"`
}

// volatile holds package variables whose content differs between identical
// replays (e.g. state seeded from the clock or from the OS generator); they are
// left out of the state key and reported.
var volatile = map[string]bool{}

func volatileList() string {
	var l []string
	for n := range volatile {
		l = append(l, n)
	}
	sort.Strings(l)
	return strings.Join(l, ",")
}

type histOut struct {
	InitialPer    map[string]string `json:"initial_per"`
	Initial       string            `json:"initial"`
	InitialRest   string            `json:"initial_rest"`
	Steps         []histStep        `json:"steps"`
	Lazy          string            `json:"lazy"`
	Intact        string            `json:"intact"`
	SourceDefault bool              `json:"source_default"`
	SourceType    string            `json:"source_type"`
	SourceAtStart bool              `json:"source_default_at_start"`
}

// runHistory executes one call history in a fresh worker process.
func runHistory(worker string, ops []string, extraEnv ...string) (*histOut, error) {
	arg := strings.Join(ops, ",")
	if len(arg) > 60000 {
		// beyond what a single command-line argument may carry: hand it over in a file
		f, err := os.CreateTemp(scratch, "hist-")
		if err != nil {
			return nil, err
		}
		f.WriteString(arg)
		f.Close()
		defer os.Remove(f.Name())
		arg = "@" + f.Name()
	}
	cmd := exec.Command(worker, "-prop", "hist", arg)
	cmd.Env = append(append(goEnv(), extraEnv...), "VERIF_DIR="+verifDir, "GOMAXPROCS=2", "VERIF_FP_FROM=-1", "VERIF_FP_EXCLUDE="+volatileList())
	out, err := cmd.Output()
	if err != nil {
		return nil, fmt.Errorf("history %v: %v", ops, err)
	}
	var h histOut
	if err := json.Unmarshal(extractResult(out), &h); err != nil {
		return nil, fmt.Errorf("history %v: bad output: %v", ops, err)
	}
	if len(h.Steps) != len(ops) {
		return nil, fmt.Errorf("history %v: %d steps reported", ops, len(h.Steps))
	}
	return &h, nil
}

// parallelHist runs many histories on all cores, preserving order.
func parallelHist(worker string, hs [][]string) ([]*histOut, error) {
	res := make([]*histOut, len(hs))
	errs := make([]error, len(hs))
	var wg sync.WaitGroup
	ch := make(chan int, len(hs))
	for i := range hs {
		ch <- i
	}
	close(ch)
	for w := 0; w < runtime.NumCPU(); w++ {
		wg.Add(1)
		go func() {
			defer wg.Done()
			for i := range ch {
				res[i], errs[i] = runHistory(worker, hs[i])
			}
		}()
	}
	wg.Wait()
	for _, e := range errs {
		if e != nil {
			return nil, e
		}
	}
	return res, nil
}

type histExplorer struct {
	worker      string
	prop        string
	ops         []string
	baseline    map[string]string // op -> outcome in the initial state
	res         *Result
	transitions int64
	states      map[string][]string // fingerprint -> shortest history
	order       []string
	lazyOf      map[string]string
	maxStates   int
	checkSource bool
	distinctOut map[string]bool
}

func (e *histExplorer) violate(key, what string, hist []string) {
	e.res.ViolationCount++
	if len(e.res.Violations) < 40 {
		e.res.Violations = append(e.res.Violations, Violation{Key: key, What: what, Case: map[string]interface{}{"kind": "history", "ops": strings.Join(hist, ",")}})
	}
}

// checkRun applies the per-execution oracle to one executed history.
func (e *histExplorer) checkRun(hist []string, h *histOut) {
	for i, st := range h.Steps {
		want, ok := e.baseline[st.Op]
		if ok && st.Outcome != want {
			e.violate(fmt.Sprintf("hist:%s", strings.Join(hist[:i+1], ",")),
				fmt.Sprintf("after history [%s] the call %s returns %q, but %q in a fresh process", strings.Join(hist[:i], ","), st.Op, st.Outcome, want), hist[:i+1])
		}
		e.distinctOut[st.Op+"="+st.Outcome] = true
	}
	if h.Intact != "" {
		e.violate("mutated:"+strings.Join(hist, ","), "after history ["+strings.Join(hist, ",")+"]: "+h.Intact, hist)
	}
	if e.checkSource && (!h.SourceAtStart || !h.SourceDefault) {
		e.violate("source:"+strings.Join(hist, ","),
			fmt.Sprintf("randomness source is not crypto/rand.Reader (at start: %v, after history [%s]: %v, dynamic type %s)", h.SourceAtStart, strings.Join(hist, ","), h.SourceDefault, h.SourceType), hist)
	}
}

// errRestart is returned when new volatile variables were identified.
var errRestart = fmt.Errorf("restart")

// markVolatile runs the same history three times and marks every variable
// whose digest differs between the runs; it returns how many were added.
func markVolatile(worker string, hist []string) (int, error) {
	outs, err := parallelHist(worker, [][]string{hist, hist, hist})
	if err != nil {
		return 0, err
	}
	added := 0
	per := func(h *histOut) map[string]string {
		if len(h.Steps) == 0 {
			return h.InitialPer
		}
		return h.Steps[len(h.Steps)-1].Per
	}
	for n, d := range per(outs[0]) {
		for _, o := range outs[1:] {
			if per(o)[n] != d && !volatile[n] {
				volatile[n] = true
				added++
			}
		}
	}
	return added, nil
}

// explore runs exploreOnce, restarting when volatile variables are found.
func (e *histExplorer) explore() error {
	for attempt := 0; attempt < 8; attempt++ {
		e.baseline = map[string]string{}
		e.transitions = 0
		e.distinctOut = map[string]bool{}
		e.res.Violations = e.res.Violations[:0]
		e.res.ViolationCount = 0
		e.res.Exhaustive = true
		err := e.exploreOnce()
		if err != errRestart {
			if len(volatile) > 0 {
				e.res.Exhaustive = false
				e.res.Extra["volatile_variables_excluded_from_state_key"] = volatileList()
			}
			return err
		}
	}
	return fmt.Errorf("package state keeps changing between identical replays (volatile: %s)", volatileList())
}

// exploreOnce is a breadth-first search over call histories to a fixpoint of the
// set of package-state fingerprints.
func (e *histExplorer) exploreOnce() error {
	// baseline: every op alone in a fresh process
	var hs [][]string
	for _, op := range e.ops {
		hs = append(hs, []string{op})
	}
	hs = append(hs, []string{})
	outs, err := parallelHist(e.worker, hs)
	if err != nil {
		return err
	}
	init := outs[len(outs)-1]
	e.states = map[string][]string{init.Initial: {}}
	e.lazyOf = map[string]string{init.Initial: ""}
	e.order = []string{init.Initial}
	e.checkRun(nil, init)
	for i, op := range e.ops {
		e.baseline[op] = outs[i].Steps[0].Outcome
	}
	// determinism of the baseline: run it a second time
	outs2, err := parallelHist(e.worker, hs[:len(e.ops)])
	if err != nil {
		return err
	}
	for i, op := range e.ops {
		if outs2[i].Steps[0].Outcome != e.baseline[op] && !strings.HasPrefix(op, "ND") {
			return fmt.Errorf("operation %s is not deterministic in a fresh process: %q vs %q", op, outs2[i].Steps[0].Outcome, e.baseline[op])
		}
		if outs2[i].Initial != init.Initial {
			if n, err := markVolatile(e.worker, nil); err != nil {
				return err
			} else if n > 0 {
				return errRestart
			}
			return fmt.Errorf("initial state fingerprint is not deterministic")
		}
	}
	frontier := []string{init.Initial}
	for len(frontier) > 0 {
		var batch [][]string
		for _, fp := range frontier {
			for _, op := range e.ops {
				batch = append(batch, append(append([]string(nil), e.states[fp]...), op))
			}
		}
		outs, err := parallelHist(e.worker, batch)
		if err != nil {
			return err
		}
		var next []string
		for i, h := range outs {
			e.transitions++
			hist := batch[i]
			e.checkRun(hist, h)
			fp := h.Steps[len(hist)-1].FP
			if _, seen := e.states[fp]; !seen {
				if len(e.states) >= e.maxStates {
					e.res.Exhaustive = false
					continue
				}
				// determinism: the history that discovered a new state must reach it again
				again, err := runHistory(e.worker, hist)
				if err != nil {
					return err
				}
				if again.Steps[len(hist)-1].FP != fp {
					if n, err := markVolatile(e.worker, hist); err != nil {
						return err
					} else if n > 0 {
						return errRestart
					}
					return fmt.Errorf("replaying history %v reached a different state (non-deterministic state)", hist)
				}
				e.states[fp] = hist
				e.lazyOf[fp] = h.Lazy
				e.order = append(e.order, fp)
				next = append(next, fp)
			}
		}
		frontier = next
	}
	return nil
}

var allLangs = []int{0, 1, 2, 3, 4, 5, 6, 7, 8, 9}

func histOps(kinds []string, langs []int) []string {
	var ops []string
	for _, l := range langs {
		for _, k := range kinds {
			ops = append(ops, fmt.Sprintf("%s:%d", k, l))
		}
	}
	return ops
}

func newHistResult(prop, tier string) *Result {
	return &Result{Property: prop, Tier: tier, Extra: map[string]interface{}{}, KnownHits: map[string]int64{}, Exhaustive: true, Samples: []interface{}{}, Violations: []Violation{}}
}

func runC13(tier string) int {
	t0 := time.Now()
	w := buildWorkerH()
	r := newHistResult("C13", tier)
	kinds := []string{"CV", "IV", "CB", "CF", "CG", "CW", "CZ", "CN", "CH", "CT", "CX", "GE", "GX", "GR", "GS", "GB", "NW", "NF", "NB", "SD", "SW", "SP", "SM", "SA", "SB", "ST"}
	// 258 = English + 256, 4294967298 = English + 2^32, -254 = English - 256: unsupported values that
	// collide with a supported one when a Language is squeezed into a narrower integer (a cache key,
	// a table index)
	langs := []int{0, 2, 5, 8, 9, 10, 258} // 0 = ChineseSimplified is also the zero value of Language
	maxStates := 64
	if tier == "thorough" {
		langs = []int{0, 1, 2, 3, 4, 5, 6, 7, 8, 9, 10, -1, 258, 4294967298, -254}
		maxStates = 4096
	}
	e := &histExplorer{worker: w, prop: "C13", ops: histOps(kinds, langs), baseline: map[string]string{}, res: r, maxStates: maxStates, distinctOut: map[string]bool{}}
	if err := e.explore(); err != nil {
		die("%v", err)
	}
	// complete 10 x 10 ordered first-use matrix: first two table-building calls, then every language
	var matrix [][]string
	tailKinds := []string{"CV", "CB", "CZ", "CN"}
	fullBase := map[string]string{}
	var tailOps []string
	for _, l := range allLangs {
		for _, k := range tailKinds {
			tailOps = append(tailOps, fmt.Sprintf("%s:%d", k, l))
		}
	}
	var baseH [][]string
	for _, op := range tailOps {
		if _, ok := e.baseline[op]; !ok {
			baseH = append(baseH, []string{op})
		}
	}
	bo, err := parallelHist(w, baseH)
	if err != nil {
		die("%v", err)
	}
	for i, h := range bo {
		fullBase[baseH[i][0]] = h.Steps[0].Outcome
	}
	for k, v := range fullBase {
		e.baseline[k] = v
	}
	firstKinds := []string{"CV", "CB"}
	if tier == "thorough" {
		firstKinds = []string{"CV", "CB", "CF", "IV"}
	}
	for _, k1 := range firstKinds {
		for _, a := range allLangs {
			for _, b := range allLangs {
				h := []string{fmt.Sprintf("%s:%d", k1, a), fmt.Sprintf("CV:%d", b)}
				h = append(h, tailOps...)
				matrix = append(matrix, h)
			}
		}
	}
	mo, err := parallelHist(w, matrix)
	if err != nil {
		die("%v", err)
	}
	for i, h := range mo {
		e.transitions += int64(len(matrix[i]))
		e.checkRun(matrix[i], h)
	}
	// long histories: behaviour that changes only after many calls (counters, caches that fill up)
	// is beyond a breadth-first search that stops at a state cap: every operation repeated 70 times,
	// and the whole alphabet cycled through twice, each in one fresh process
	var long [][]string
	for _, op := range e.ops {
		h := make([]string, 70)
		for i := range h {
			h[i] = op
		}
		long = append(long, h)
	}
	long = append(long, append(append([]string(nil), e.ops...), e.ops...))
	// thresholds such as 100, 256, 1000, 1024 (thorough: 4096, 65536) calls: a few cheap operations
	// repeated that often
	reps := 1100
	if tier == "thorough" {
		reps = 66000
	}
	for _, op := range []string{"CV:2", "CF:2", "GE:2", "NW:2", "NB:2", "ST:2", "CZ:5"} {
		h := make([]string, reps)
		for i := range h {
			h[i] = op
		}
		long = append(long, h)
	}
	// many DISTINCT arguments (a memo, pool or table keyed by the argument that misbehaves once it is
	// full, evicts, promotes, or is hit a second time): K valid sentences, K encodings and Ks seeds
	// with re-uses at every power-of-two distance, plus every sentence between two validations of its
	// checksum-damaged twin; each indexed call has its own fresh-process baseline
	fillK, fillS := 130, 40
	if tier == "thorough" {
		fillK, fillS = 4200, 600
	}
	var fills [][]string
	var idxOps []string
	// every k-th new argument is followed by re-uses of the arguments seen 1, 2, 4, 8, ... positions
	// earlier: all reuse distances up to K occur at every fill level (a plain second pass over more
	// keys than a cache holds would only ever miss)
	sawtooth := func(kind string, l, n int) []string {
		item := func(k int) string {
			if kind == "CK" && k%3 == 1 {
				// verdicts of both kinds interleaved (a memo that files a result under the wrong key is only
				// visible when neighbouring results differ)
				return fmt.Sprintf("CJ:%d:%d", l, k)
			}
			return fmt.Sprintf("%s:%d:%d", kind, l, k)
		}
		var h []string
		for k := 0; k < n; k++ {
			h = append(h, item(k))
			for d := 1; d <= k; d *= 2 {
				h = append(h, item(k-d))
			}
		}
		return h
	}
	for _, l := range []int{2, 5} {
		h := sawtooth("CK", l, fillK)
		for k := 0; k < fillK; k++ {
			// the checksum-damaged twin right before and after its valid sentence
			h = append(h, fmt.Sprintf("CJ:%d:%d", l, k), fmt.Sprintf("CK:%d:%d", l, k), fmt.Sprintf("CJ:%d:%d", l, k))
		}
		g := sawtooth("GK", l, fillK)
		for k := 0; k < fillK; k++ {
			idxOps = append(idxOps, fmt.Sprintf("CK:%d:%d", l, k), fmt.Sprintf("CJ:%d:%d", l, k), fmt.Sprintf("GK:%d:%d", l, k))
		}
		fills = append(fills, h, g)
	}
	{
		h := sawtooth("SK", 2, fillS)
		for k := 0; k < fillS; k++ {
			idxOps = append(idxOps, fmt.Sprintf("SK:2:%d", k))
		}
		fills = append(fills, h)
	}
	var idxBase [][]string
	for _, op := range idxOps {
		idxBase = append(idxBase, []string{op})
	}
	ib, err := parallelHist(w, idxBase)
	if err != nil {
		die("%v", err)
	}
	for i, h := range ib {
		e.baseline[idxOps[i]] = h.Steps[0].Outcome
	}
	long = append(long, fills...)
	lo, err := parallelHist(w, long)
	if err != nil {
		die("%v", err)
	}
	for i, h := range lo {
		e.transitions += int64(len(long[i]))
		e.checkRun(long[i], h)
	}
	r.Extra["long_histories"] = len(long)
	r.Extra["distinct_argument_fill_histories"] = fmt.Sprintf("%d sentences / encodings x 2 languages, %d seeds", fillK, fillS)
	// the process environment is not an argument either: the whole alphabet once under each of a
	// few different environments (scheduler width, time zone, locale, home, extra variables the
	// package reads); outcomes must equal the baseline
	envVariants := [][]string{{"GOMAXPROCS=1"}, {"GOMAXPROCS=8"}, {"TZ=Pacific/Kiritimati"}, {"LANG=tr_TR.UTF-8", "LC_ALL=tr_TR.UTF-8"}, {"HOME=/nonexistent", "USER=nobody"}}
	for _, name := range envVarsRead() {
		for _, val := range []string{"1", "true", "/dev/zero"} {
			envVariants = append(envVariants, []string{name + "=" + val})
		}
	}
	for _, ev := range envVariants {
		h, err := runHistory(w, e.ops, ev...)
		if err != nil {
			die("%v", err)
		}
		before := r.ViolationCount
		e.transitions += int64(len(e.ops))
		e.checkRun(e.ops, h)
		if r.ViolationCount > before && len(r.Violations) > 0 {
			r.Violations[len(r.Violations)-1].What = "with " + strings.Join(ev, " ") + " in the environment: " + r.Violations[len(r.Violations)-1].What
			r.Violations[len(r.Violations)-1].Case["env"] = ev[0]
		}
	}
	r.Extra["environment_variants"] = len(envVariants)
	r.States = int64(len(e.states))
	r.Transitions = e.transitions
	r.Evaluations = e.transitions
	r.Distinct = int64(len(e.distinctOut))
	r.Rule = "explicit-state BFS over call histories: alphabet = 26 operation kinds (valid/invalid validations, a valid sentence in a non-canonical equivalent spelling, the same sentence with another first word and its last 12 words alone, the same string under every language, encodings, the same entropy under every language, NewMnemonic over a scripted source swapped in and out, failing source, seeds with shared mnemonic or shared passphrase, a seed whose returned slice the caller then wipes, one caller-owned entropy buffer refilled in place, String); error values returned earlier must keep their text x languages (quick: ChineseSimplified (the zero value), English, Japanese, Czech, Portuguese + unsupported 10 and 258; thorough: all ten + unsupported 10, -1, 258, 2^32+2, -254); every transition is executed in a fresh OS process by replaying the shortest history to the source state and then the operation; state = SHA-256 of a canonical dump of every package-level variable of bip39 and internal/wordlist; search runs to a fixpoint; plus the complete ordered first-use matrix (10x10 ordered language pairs, each followed by valid/invalid validations in all ten languages), plus long histories (every operation 70 times in a row; the whole alphabet twice; seven cheap operations 1100 times each, thorough 66000; fill histories over many distinct arguments: 130 (thorough 4200) valid sentences and as many encodings, 40 (thorough 600) seeds, each new argument followed by re-uses of the arguments seen 1, 2, 4, 8, ... positions earlier, and every sentence between two validations of its checksum-damaged twin) and the whole alphabet under several process environments (GOMAXPROCS, TZ, locale, HOME, every environment variable the package reads). Oracle per executed call: outcome (value, error class and text, panic) equals the outcome of the same call in a fresh process; caller buffers and earlier results unchanged at the end of the history. distinct_nontrivial = distinct (operation, outcome) pairs observed"
	r.Extra["operations"] = len(e.ops)
	r.Extra["first_use_matrix_histories"] = len(matrix)
	r.Extra["reached_fixpoint"] = r.Exhaustive
	var lz []string
	for _, fp := range e.order {
		lz = append(lz, e.lazyOf[fp])
	}
	sort.Strings(lz)
	if len(lz) > 6 {
		lz = append(lz[:3], lz[len(lz)-3:]...)
	}
	r.Extra["sample_states_lazy_tables_built"] = lz
	for i, fp := range e.order {
		if i == 1 || i == len(e.order)-1 {
			r.Samples = append(r.Samples, map[string]interface{}{"state": fp, "shortest_history": strings.Join(e.states[fp], ","), "tables_built": e.lazyOf[fp]})
		}
	}
	r.Samples = append(r.Samples, map[string]interface{}{"first_use_history": strings.Join(matrix[37][:5], ",") + ",..."})
	r.Assumptions = []string{"dependencies (x/text, x/crypto, math/big, crypto/*) keep no observable state across calls: state outside package-level variables of bip39/internal/wordlist is not fingerprinted", "one fresh OS process = a process that has not used the package yet"}
	r.Extra["traces_validated_against_impl"] = e.transitions
	return finish("C13", tier, r, t0)
}

func runC07(tier string) int {
	t0 := time.Now()
	w := buildWorkerH()
	r := newHistResult("C07", tier)
	kinds := []string{"CV", "CB", "GE", "GB", "NB", "SD", "ST", "ND"}
	langs := []int{2, 5, 9, 10}
	maxStates := 64
	if tier == "thorough" {
		langs = []int{0, 1, 2, 3, 4, 5, 6, 7, 8, 9, 10, -1}
		maxStates = 4096
	}
	ops := histOps(kinds, langs)
	for _, n := range []int{15, 18, 21, 24} {
		ops = append(ops, fmt.Sprintf("ND:%d:%d", langs[n%len(langs)], n))
	}
	e := &histExplorer{worker: w, prop: "C07", ops: ops, baseline: map[string]string{}, res: r, maxStates: maxStates, checkSource: true, distinctOut: map[string]bool{}}
	if err := e.explore(); err != nil {
		die("%v", err)
	}
	r.States = int64(len(e.states))
	r.Transitions = e.transitions
	r.Evaluations = e.transitions
	r.Distinct = int64(len(e.distinctOut))
	r.Rule = "explicit-state BFS over call histories that never swap the randomness source (validations, encodings, rejected calls, seed, String, and NewMnemonic on the default source for all five counts); every transition executed in a fresh process; state = fingerprint of all package-level variables; the same is repeated with every environment variable the package reads set to a few values (flags, numbers, device paths); invariant checked at every process start and after every history: the value held by the package's source variable (read through the verif hook, then restored) is identical (==) to crypto/rand.Reader. Second phase, in a build whose import of crypto/rand is redirected to a position-coded stand-in stream (overlay, nothing written to the repository): every call sequence (p)^* of 300 default-source NewMnemonic calls (thorough: 20000 calls for the single-count patterns) (and of 80 calls with the stand-in going down for good inside the 3rd, 10th and 70th call: fail-closed, no other randomness afterwards) for every pattern p of length <=2 (thorough <=3) over the five counts, languages rotating: each result must be a valid sentence whose entropy occurs in the bytes the default source delivered and overlaps no window used by an earlier call (nothing mixed in, substituted or reused). For injected sources the byte-exact dependence is C06's oracle. distinct_nontrivial = distinct (operation, outcome) pairs observed"
	r.Extra["operations"] = len(ops)
	r.Extra["reached_fixpoint"] = r.Exhaustive
	r.Extra["traces_validated_against_impl"] = e.transitions
	for i, fp := range e.order {
		if i == 1 || i == len(e.order)-1 {
			r.Samples = append(r.Samples, map[string]interface{}{"state": fp, "shortest_history": strings.Join(e.states[fp], ","), "tables_built": e.lazyOf[fp], "source": "crypto/rand.Reader"})
		}
	}
	// the process environment as an input: every variable the package reads, over a few values
	envVars := envVarsRead()
	envRuns := 0
	for _, name := range envVars {
		for _, val := range []string{"1", "0", "true", "42", "test", "", "/dev/zero", "/dev/urandom", "/dev/null"} {
			for _, hist := range [][]string{{}, {"ND:2"}, {"CV:2", "ND:5:24"}} {
				h, err := runHistory(w, hist, name+"="+val)
				if err != nil {
					die("%v", err)
				}
				envRuns++
				r.Transitions += int64(len(hist)) + 1
				if !h.SourceAtStart || !h.SourceDefault {
					r.ViolationCount++
					if len(r.Violations) < 40 {
						r.Violations = append(r.Violations, Violation{Key: fmt.Sprintf("env:%s=%s:%s", name, val, strings.Join(hist, ",")),
							What: fmt.Sprintf("with %s=%q in the environment the randomness source is not crypto/rand.Reader (at start: %v, after history [%s]: %v, dynamic type %s)", name, val, h.SourceAtStart, strings.Join(hist, ","), h.SourceDefault, h.SourceType),
							Case: map[string]interface{}{"kind": "history", "ops": strings.Join(hist, ","), "env": name + "=" + val}})
					}
				}
			}
		}
	}
	r.Extra["environment_variables_read_by_the_package"] = envVars
	r.Extra["environment_runs"] = envRuns
	nSeq, nCalls, redirected := c07DefaultPath(tier, r)
	r.Extra["default_path_sequences"] = nSeq
	r.Extra["default_path_calls"] = nCalls
	r.Extra["files_with_crypto_rand_redirected"] = redirected
	r.Transitions += int64(nCalls)
	r.Evaluations += int64(nCalls)
	r.Extra["traces_validated_against_impl"] = r.Transitions
	r.Assumptions = []string{"statistical quality of the OS CSPRNG is out of scope; identity with crypto/rand.Reader plus C06's byte-exact dependence reduce it to the operating system", "crypto/rand.Reader itself is not replaced by the package (its dynamic type is recorded)"}
	return finish("C07", tier, r, t0)
}

// replayHist re-executes a recorded history without the explorer.
func replayHist(path string) int {
	data, err := readFile(path)
	if err != nil {
		die("%v", err)
	}
	var rep struct {
		Property string `json:"property"`
		What     string `json:"what"`
		Case     struct {
			Kind   string `json:"kind"`
			Ops    string `json:"ops"`
			Env    string `json:"env"`
			FailAt *int   `json:"fail_at"`
		} `json:"case"`
	}
	if err := json.Unmarshal(data, &rep); err != nil {
		die("%v", err)
	}
	if rep.Case.Kind == "vrand" {
		wv, _ := buildWorkerV()
		vargs := []string{"-prop", "vrand", rep.Case.Ops}
		if rep.Case.FailAt != nil {
			vargs = append(vargs, fmt.Sprint(*rep.Case.FailAt))
		}
		cmd := exec.Command(wv, vargs...)
		cmd.Env = append(goEnv(), "VERIF_DIR="+verifDir)
		out, err := cmd.Output()
		if err != nil {
			die("%v", err)
		}
		var vo vrandOut
		if err := json.Unmarshal(extractResult(out), &vo); err != nil {
			die("%v", err)
		}
		fmt.Printf("replaying C07 default-source sequence [%s] (crypto/rand replaced by a position-coded stream)\nrecorded: %s\n", rep.Case.Ops, rep.What)
		bad := !vo.SourceIsStandIn
		for i, c := range vo.Calls {
			fmt.Printf(" %2d %-6s window=[%d,%d) %s\n", i+1, c.Op, c.Offset, c.Offset+c.Len, c.Problem)
			if c.Problem != "" {
				bad = true
			}
		}
		if bad {
			fmt.Printf("VIOLATION property=C07 replay=%s\n", path)
			return 1
		}
		fmt.Println("replay: sequence passes on the current tree")
		return 0
	}
	w := buildWorkerH()
	ops := strings.Split(rep.Case.Ops, ",")
	if rep.Case.Ops == "" {
		ops = nil
	}
	var extraEnv []string
	if rep.Case.Env != "" {
		extraEnv = append(extraEnv, rep.Case.Env)
	}
	h, err := runHistory(w, ops, extraEnv...)
	if err != nil {
		die("%v", err)
	}
	fmt.Printf("replaying %s history [%s]\nrecorded: %s\n", rep.Property, rep.Case.Ops, rep.What)
	bad := false
	for i, st := range h.Steps {
		alone, err := runHistory(w, []string{st.Op})
		if err != nil {
			die("%v", err)
		}
		mark := ""
		if alone.Steps[0].Outcome != st.Outcome && !strings.HasPrefix(st.Op, "ND") {
			mark = "   <-- differs from fresh process: " + alone.Steps[0].Outcome
			bad = true
		}
		fmt.Printf(" %2d %-8s %s%s\n", i, st.Op, st.Outcome, mark)
	}
	if h.Intact != "" {
		fmt.Println(" " + h.Intact)
		bad = true
	}
	if rep.Property == "C07" && (!h.SourceAtStart || !h.SourceDefault) {
		fmt.Printf(" source is default at start: %v, after history: %v (%s)\n", h.SourceAtStart, h.SourceDefault, h.SourceType)
		bad = true
	}
	if bad {
		fmt.Printf("VIOLATION property=%s replay=%s\n", rep.Property, path)
		return 1
	}
	fmt.Println("replay: history passes on the current tree")
	return 0
}

type vrandCall struct {
	Op       string `json:"op"`
	Mnemonic string `json:"mnemonic"`
	Err      string `json:"err"`
	Offset   int    `json:"offset"`
	Len      int    `json:"len"`
	Problem  string `json:"problem"`
}

type vrandOut struct {
	SourceIsStandInAtEnd bool        `json:"source_is_stand_in_at_end"`
	SourceIsStandIn      bool        `json:"source_is_stand_in"`
	Calls                []vrandCall `json:"calls"`
	Delivered            int         `json:"delivered"`
}

// c07DefaultPath executes default-source call sequences in the build with the
// controlled stand-in for crypto/rand.
func c07DefaultPath(tier string, r *Result) (nSeq, nCalls, redirected int) {
	w, redirected := buildWorkerV()
	counts := []int{12, 15, 18, 21, 24}
	maxPat := 2
	if tier == "thorough" {
		maxPat = 3
	}
	var pats [][]int
	var rec func(p []int)
	rec = func(p []int) {
		if len(p) > 0 {
			pats = append(pats, append([]int(nil), p...))
		}
		if len(p) == maxPat {
			return
		}
		for _, c := range counts {
			rec(append(p, c))
		}
	}
	rec(nil)
	const depth = 300
	type res struct {
		ops    string
		failAt int
		out    vrandOut
		err    error
	}
	// every pattern once with a healthy stand-in, and again with the stand-in going down for good
	// in the middle of the 3rd, the 10th and the 70th call (fail-closed on the default path, and no
	// other randomness afterwards)
	type job struct {
		pat    []int
		failAt int
	}
	var jobs []job
	for _, p := range pats {
		jobs = append(jobs, job{p, -1})
		for _, callNo := range []int{3, 10, 70} {
			bytes := 0
			for j := 0; j < callNo-1; j++ {
				n := p[j%len(p)]
				bytes += n + n/3
			}
			jobs = append(jobs, job{p, bytes + 5})
		}
	}
	results := make([]res, len(jobs))
	var wg sync.WaitGroup
	ch := make(chan int, len(jobs))
	for i := range jobs {
		ch <- i
	}
	close(ch)
	for k := 0; k < runtime.NumCPU(); k++ {
		wg.Add(1)
		go func() {
			defer wg.Done()
			for i := range ch {
				var ops []string
				d := depth
				if jobs[i].failAt >= 0 {
					d = 80
				} else if tier == "thorough" && len(jobs[i].pat) == 1 {
					d = 20000 // behaviour that changes only after very many default-source calls
				}
				for j := 0; j < d; j++ {
					ops = append(ops, fmt.Sprintf("%d:%d", jobs[i].pat[j%len(jobs[i].pat)], (i+j)%10))
				}
				results[i].ops = strings.Join(ops, ",")
				results[i].failAt = jobs[i].failAt
				cmd := exec.Command(w, "-prop", "vrand", results[i].ops, fmt.Sprint(jobs[i].failAt))
				cmd.Env = append(goEnv(), "VERIF_DIR="+verifDir, "GOMAXPROCS=2")
				out, err := cmd.Output()
				if err != nil {
					results[i].err = err
					continue
				}
				results[i].err = json.Unmarshal(extractResult(out), &results[i].out)
			}
		}()
	}
	wg.Wait()
	for _, x := range results {
		if x.err != nil {
			die("default-path run %s: %v", x.ops, x.err)
		}
		nSeq++
		if redirected > 0 && x.out.SourceIsStandIn && !x.out.SourceIsStandInAtEnd {
			r.ViolationCount++
			if len(r.Violations) < 40 {
				r.Violations = append(r.Violations, Violation{Key: "vrand-source-end:" + x.ops[:20], What: fmt.Sprintf("after %d default-source calls the package's source variable no longer holds the (stand-in for) crypto/rand.Reader", len(x.out.Calls)), Case: map[string]interface{}{"kind": "vrand", "ops": x.ops, "fail_at": x.failAt}})
			}
		}
		if redirected > 0 && !x.out.SourceIsStandIn {
			r.ViolationCount++
			if len(r.Violations) < 40 {
				r.Violations = append(r.Violations, Violation{Key: "vrand-source", What: "in the build with crypto/rand redirected, the package's source variable does not hold the stand-in for crypto/rand.Reader", Case: map[string]interface{}{"kind": "vrand", "ops": ""}})
			}
		}
		for i, c := range x.out.Calls {
			nCalls++
			if c.Problem != "" && redirected > 0 {
				r.ViolationCount++
				prefix := strings.Join(strings.Split(x.ops, ",")[:i+1], ",")
				if len(r.Violations) < 40 {
					r.Violations = append(r.Violations, Violation{Key: "vrand:" + prefix,
						What: fmt.Sprintf("default-source call #%d (%s words, language %s) of sequence [%s]: %s", i+1, strings.Split(c.Op, ":")[0], strings.Split(c.Op, ":")[1], prefix, c.Problem),
						Case: map[string]interface{}{"kind": "vrand", "ops": prefix, "fail_at": x.failAt}})
				}
				break
			}
		}
	}
	if len(results) > 0 && len(results[0].out.Calls) > 2 {
		c := results[len(results)-1].out.Calls[1]
		r.Samples = append(r.Samples, map[string]interface{}{"default_path_sequence": results[len(results)-1].ops[:40] + "...", "call": c.Op, "entropy_window_in_source_stream": []int{c.Offset, c.Offset + c.Len}})
	}
	if redirected == 0 {
		r.Exhaustive = false
		r.Extra["default_path_note"] = "no file of the package imports crypto/rand: the default-path phase could not control the source (the identity invariant of phase 1 is then the deciding check)"
	}
	return
}
