package main

import (
	"bytes"
	"context"
	"encoding/json"
	"fmt"
	"os"
	"os/exec"
	"path/filepath"
	"runtime"
	"sort"
	"strconv"
	"strings"
	"sync"
	"sync/atomic"
	"time"
)

func init() {
	special["C12"] = runC12
	specialReplay["C12"] = replayC12
}

type schedPoint struct {
	Enabled        []int  `json:"enabled"`
	RunningEnabled bool   `json:"running_enabled"`
	Choice         int    `json:"choice"`
	What           string `json:"what"`
}

type schedRace struct {
	Var    string `json:"var"`
	A      string `json:"a"`
	B      string `json:"b"`
	Detail string `json:"detail"`
}

type schedOut struct {
	Points       []schedPoint `json:"points"`
	Deadlock     string       `json:"deadlock"`
	Races        []schedRace  `json:"races"`
	Diverged     string       `json:"diverged"`
	AccVisits    int          `json:"acc_visits"`
	SyncOps      int          `json:"sync_ops"`
	BlockedTimes int          `json:"blocked_times"`
	Outcomes     [][]string   `json:"outcomes"`
	FinalFP      string       `json:"final_fp"`
	Intact       string       `json:"intact"`
	Sites        int          `json:"sites"`
}

func choicesString(c []int) string {
	s := make([]string, len(c))
	for i, x := range c {
		s[i] = strconv.Itoa(x)
	}
	return strings.Join(s, ",")
}

func runSched(worker, scenario string, prefix []int, k int, hb bool) (*schedOut, error) {
	h := "1"
	if !hb {
		h = "0"
	}
	ctx, cancel := context.WithTimeout(context.Background(), 300*time.Second)
	defer cancel()
	cmd := exec.CommandContext(ctx, worker, "-prop", "sched", scenario, choicesString(prefix), strconv.Itoa(k), h)
	cmd.Env = append(goEnv(), "VERIF_DIR="+verifDir, "GOMAXPROCS=1")
	var stderr bytes.Buffer
	cmd.Stderr = &stderr
	out, err := cmd.Output()
	if err != nil {
		return nil, fmt.Errorf("scheduled run %s [%s]: %v: %s", scenario, choicesString(prefix), err, lastLines(stderr.String(), 4))
	}
	var r schedOut
	if err := json.Unmarshal(extractResult(out), &r); err != nil {
		return nil, fmt.Errorf("scheduled run %s: bad output: %v", scenario, err)
	}
	return &r, nil
}

type schedStats struct {
	executions, points, maxPoints int64
	distinctOutcomes              map[string]bool
	distinctFinal                 map[string]bool
	interleaved                   int64 // executions in which a thread had to wait for a sync object held by another
	preempted                     int64
}

type schedViolation struct {
	scenario string
	choices  []int
	what     string
	cost     int
}

// exploreScenario enumerates every schedule of the scenario with at most
// `bound` preemptions (stateless DFS over choice prefixes, one fresh process
// per execution).
func exploreScenario(worker, scenario string, baseline map[string]string, bound, k int, hb bool, st *schedStats, mu *sync.Mutex) ([]schedViolation, error) {
	type task struct{ prefix []int }
	var viols []schedViolation
	var firstErr error
	var pending int64
	queue := make(chan task, 1<<20)
	var wg sync.WaitGroup
	// sequential (no preemption) run first: gives the reference final state
	first, err := runSched(worker, scenario, nil, k, hb)
	if err != nil {
		return nil, err
	}
	ops := parseScenarioOps(scenario)
	handle := func(t task, r *schedOut) {
		choices := make([]int, len(r.Points))
		costBefore := make([]int, len(r.Points)+1)
		for i, p := range r.Points {
			choices[i] = p.Choice
			costBefore[i+1] = costBefore[i]
			if p.RunningEnabled && p.Choice != 0 {
				costBefore[i+1]++
			}
		}
		total := costBefore[len(r.Points)]
		// oracle
		var bad []string
		if r.Diverged != "" {
			mu.Lock()
			if firstErr == nil {
				firstErr = fmt.Errorf("replay divergence in %s [%s]: %s", scenario, choicesString(t.prefix), r.Diverged)
			}
			mu.Unlock()
			return
		}
		if r.Deadlock != "" {
			bad = append(bad, "deadlock: "+r.Deadlock)
		} else {
			for ti := range ops {
				for j, op := range ops[ti] {
					got := "<missing>"
					if ti < len(r.Outcomes) && j < len(r.Outcomes[ti]) {
						got = r.Outcomes[ti][j]
					}
					if want := baseline[op]; got != want {
						bad = append(bad, fmt.Sprintf("thread %d call %s returned %q, alone it returns %q", ti, op, clipS(got), clipS(want)))
					}
				}
			}
			if r.Intact != "" {
				bad = append(bad, r.Intact)
			}
		}
		for _, rc := range r.Races {
			bad = append(bad, fmt.Sprintf("data race on %s: %s / %s (%s)", rc.Var, rc.A, rc.B, rc.Detail))
		}
		mu.Lock()
		st.executions++
		st.points += int64(len(r.Points))
		if int64(len(r.Points)) > st.maxPoints {
			st.maxPoints = int64(len(r.Points))
		}
		if r.BlockedTimes > 0 {
			st.interleaved++
		}
		if total > 0 {
			st.preempted++
		}
		st.distinctOutcomes[scenario+fmt.Sprint(r.Outcomes)] = true
		st.distinctFinal[r.FinalFP] = true
		if len(bad) > 0 {
			viols = append(viols, schedViolation{scenario, choices, strings.Join(bad, "; "), total})
		}
		mu.Unlock()
		// children
		for i := len(t.prefix); i < len(r.Points); i++ {
			p := r.Points[i]
			cost := costBefore[i]
			if p.RunningEnabled {
				cost++
			}
			if cost > bound {
				continue
			}
			for alt := 1; alt < len(p.Enabled); alt++ {
				np := append(append([]int(nil), choices[:i]...), alt)
				atomic.AddInt64(&pending, 1)
				queue <- task{np}
			}
		}
	}
	atomic.AddInt64(&pending, 1)
	handle(task{nil}, first)
	atomic.AddInt64(&pending, -1)
	if atomic.LoadInt64(&pending) == 0 {
		return viols, firstErr
	}
	done := make(chan struct{})
	var once sync.Once
	for w := 0; w < runtime.NumCPU(); w++ {
		wg.Add(1)
		go func() {
			defer wg.Done()
			for {
				select {
				case <-done:
					return
				case t := <-queue:
					r, err := runSched(worker, scenario, t.prefix, k, hb)
					if err != nil {
						mu.Lock()
						if firstErr == nil {
							firstErr = err
						}
						mu.Unlock()
					} else {
						handle(t, r)
					}
					if atomic.AddInt64(&pending, -1) == 0 {
						once.Do(func() { close(done) })
						return
					}
				}
			}
		}()
	}
	wg.Wait()
	return viols, firstErr
}

type xViolation struct {
	Choices string `json:"choices"`
	Cost    int    `json:"cost"`
	What    string `json:"what"`
}

type xOut struct {
	Scenario    string       `json:"scenario"`
	Executions  int64        `json:"executions"`
	Points      int64        `json:"points"`
	MaxPoints   int64        `json:"max_points"`
	Interleaved int64        `json:"interleaved"`
	Preempted   int64        `json:"preempted"`
	Outcomes    []string     `json:"distinct_outcomes"`
	Violations  []xViolation `json:"violations"`
	NViolations int64        `json:"n_violations"`
	ResetFailed bool         `json:"reset_failed"`
	Aborted     string       `json:"aborted"`
	Diverged    string       `json:"diverged"`
	SampleTrace []string     `json:"sample_trace"`
}

// exploreAll explores every scenario: first inside one process per scenario
// (package state restored and its fingerprint verified between executions;
// scenarios run in parallel), falling back to one fresh process per execution
// when the state cannot be restored. Every violation found in-process is
// confirmed by replaying its schedule in a fresh process before it is kept.
func exploreAll(worker string, scenarios []string, boundOf func(string) int, baseline map[string]string, k int, hb bool, st *schedStats, perScenario map[string]int64) ([]schedViolation, []string, error) {
	bfile := filepath.Join(scratch, "baseline.json")
	data, _ := json.Marshal(baseline)
	if err := os.WriteFile(bfile, data, 0644); err != nil {
		return nil, nil, err
	}
	outs := make([]*xOut, len(scenarios))
	errs := make([]error, len(scenarios))
	ch := make(chan int, len(scenarios))
	for i := range scenarios {
		ch <- i
	}
	close(ch)
	var wg sync.WaitGroup
	for w := 0; w < runtime.NumCPU(); w++ {
		wg.Add(1)
		go func() {
			defer wg.Done()
			for i := range ch {
				h := "1"
				if !hb {
					h = "0"
				}
				ctx, cancel := context.WithTimeout(context.Background(), 3600*time.Second)
				cmd := exec.CommandContext(ctx, worker, "-prop", "schedx", scenarios[i], strconv.Itoa(boundOf(scenarios[i])), strconv.Itoa(k), h, bfile)
				cmd.Env = append(goEnv(), "VERIF_DIR="+verifDir, "GOMAXPROCS=1")
				var stderr bytes.Buffer
				cmd.Stderr = &stderr
				o, err := cmd.Output()
				cancel()
				if err != nil {
					errs[i] = fmt.Errorf("in-process exploration of %s: %v: %s", scenarios[i], err, lastLines(stderr.String(), 4))
					continue
				}
				var x xOut
				if err := json.Unmarshal(extractResult(o), &x); err != nil {
					errs[i] = fmt.Errorf("in-process exploration of %s: bad output", scenarios[i])
					continue
				}
				outs[i] = &x
			}
		}()
	}
	wg.Wait()
	var viols []schedViolation
	var fallbacks []string
	var mu sync.Mutex
	for i, sc := range scenarios {
		if errs[i] != nil {
			return nil, nil, errs[i]
		}
		x := outs[i]
		fallback := x.ResetFailed || x.Diverged != "" // (a divergence inside one process = the reset was incomplete)
		var confirmed []schedViolation
		for _, v := range x.Violations {
			var prefix []int
			for _, c := range strings.Split(v.Choices, ",") {
				if c != "" {
					n, _ := strconv.Atoi(c)
					prefix = append(prefix, n)
				}
			}
			again, err := runSched(worker, sc, prefix, k, hb)
			if err != nil {
				return nil, nil, err
			}
			if bad := judge(sc, again, baseline); bad != "" {
				confirmed = append(confirmed, schedViolation{sc, prefix, bad, v.Cost})
			} else {
				fallback = true // not reproducible from a cold process: distrust the in-process run
			}
		}
		if fallback {
			fallbacks = append(fallbacks, sc)
			before := st.executions
			v, err := exploreScenario(worker, sc, baseline, boundOf(sc), k, hb, st, &mu)
			if err != nil {
				return nil, nil, err
			}
			viols = append(viols, v...)
			perScenario[sc] = st.executions - before
			continue
		}
		if len(x.SampleTrace) > 0 && len(schedSamples) < 3 && (len(schedSamples) == 0 || i%17 == 5) {
			schedSamples = append(schedSamples, map[string]interface{}{"scenario": sc, "one_executed_schedule (enabled threads -> choice, at which point)": x.SampleTrace, "executions_of_this_scenario": x.Executions})
		}
		viols = append(viols, confirmed...)
		st.executions += x.Executions
		st.points += x.Points
		if x.MaxPoints > st.maxPoints {
			st.maxPoints = x.MaxPoints
		}
		st.interleaved += x.Interleaved
		st.preempted += x.Preempted
		for _, o := range x.Outcomes {
			st.distinctOutcomes[sc+o] = true
		}
		perScenario[sc] = x.Executions
		if x.NViolations > int64(len(confirmed)) {
			// count the remaining ones without re-confirming each
			for n := int64(len(confirmed)); n < x.NViolations && len(confirmed) > 0; n++ {
				viols = append(viols, schedViolation{sc, confirmed[0].choices, confirmed[0].what, 99})
			}
		}
	}
	return viols, fallbacks, nil
}

// judge applies the per-execution oracle to one fresh-process execution.
func judge(scenario string, r *schedOut, baseline map[string]string) string {
	var bad []string
	if r.Deadlock != "" {
		bad = append(bad, "deadlock: "+r.Deadlock)
	} else {
		for ti, t := range parseScenarioOps(scenario) {
			for j, op := range t {
				got := "<missing>"
				if ti < len(r.Outcomes) && j < len(r.Outcomes[ti]) {
					got = r.Outcomes[ti][j]
				}
				if want := baseline[op]; got != want {
					bad = append(bad, fmt.Sprintf("thread %d call %s returned %q, alone it returns %q", ti, op, clipS(got), clipS(want)))
				}
			}
		}
		if r.Intact != "" {
			bad = append(bad, r.Intact)
		}
	}
	for _, rc := range r.Races {
		bad = append(bad, fmt.Sprintf("data race on %s: %s / %s (%s)", rc.Var, rc.A, rc.B, rc.Detail))
	}
	return strings.Join(bad, "; ")
}

func parseScenarioOps(s string) [][]string {
	var out [][]string
	for _, t := range strings.Split(s, "|") {
		out = append(out, strings.Split(t, ","))
	}
	return out
}

// c12Scenarios returns the closed drivers (forced collisions on lazily built state).
func c12Scenarios(thorough bool) []string {
	var sc []string
	add := func(s string) { sc = append(sc, s) }
	for l := 0; l < 10; l++ {
		add(fmt.Sprintf("CV:%d|CV:%d", l, l)) // S1 same cold table
		if !thorough && l != 2 && l != 5 && l != 8 && l != 9 {
			// quick tier: the other per-language families only for four languages (S3 below
			// still touches every language)
			continue
		}
		add(fmt.Sprintf("CV:%d|GE:%d", l, l))        // S2 table vs list
		add(fmt.Sprintf("CZ:%d|CB:%d", l, l))        // S1' valid (leading zeros) vs invalid on the same cold table
		add(fmt.Sprintf("GE:%d|GL:%d", l, (l+1)%10)) // encoders of different sizes
	}
	for a := 0; a < 10; a++ { // S3 two different cold tables
		for b := a + 1; b < 10; b++ {
			if thorough || b == a+1 || (a == 0 && b == 9) {
				add(fmt.Sprintf("CV:%d|CV:%d", a, b))
			}
		}
	}
	// S4 three threads
	for _, l := range []int{2, 5, 9} {
		add(fmt.Sprintf("CV:%d|CV:%d|CB:%d", l, l, l))
		add(fmt.Sprintf("CV:%d|CV:%d|CV:%d", l, l, (l+1)%10))
	}
	if thorough {
		for l := 0; l < 10; l++ {
			add(fmt.Sprintf("CV:%d|CZ:%d|CV:%d", l, l, (l+3)%10))
		}
		// four goroutines (one preemption less again): same cold table, two tables, mixed entry points
		add("CV:2|CV:2|CV:2|CV:2")
		add("CV:5|CV:5|CV:9|CV:9")
		add("CV:8|GE:8|SD:8|CF:8")
		add("NS:2|NS:5|NS:2:24|NS:6:15")
	}
	// S5 crossed orders
	add("CV:2,CV:5|CV:5,CV:2")
	add("CV:8,CV:9|CV:9,CV:8")
	add("CV:0,GE:1|CV:1,GE:0")
	// S6 NewMnemonic on one shared source
	add("NS:2|NS:5")
	add("NS:2:24|NS:2:12")
	add("NS:6:15|NS:6:15|NS:3:24")
	// a call whose source breaks down in the middle, then (and meanwhile) calls that succeed: what the
	// failing path leaves behind (a buffer parked twice, a lock not released) meets overlapping calls
	add("NS:2:12:F,NS:2|NS:5")
	add("NS:2:24:F|NS:2:24,NS:5")
	if thorough {
		add("NS:2:12:F,NS:2|NS:5|NS:6:15")
		add("NS:3:15:F,NS:3:15:F,NS:3|NS:3:15,NS:3:24")
	}
	// the package's own default source used concurrently (it must be safe for concurrent use)
	add("ND:2|ND:5")
	add("ND:2:24|ND:2:24")
	// S7 the remaining entry points
	add("ST:2|ST:9")
	add("SD:2|SD:2")
	add("SD:5|CV:5")
	add("IV:2|CV:2")
	add("GE:3|GE:3")
	add("GL:7|GL:7")
	add("NW:2|CV:2")
	// S7' the error paths concurrently (failing validations of the same and of different kinds)
	add("CF:2|CF:2")
	add("CF:2|CG:2")
	add("CF:5|CG:9")
	add("CW:2|CF:2")
	add("CB:3|CF:3")
	add("GB:2|NB:2")
	add("CF:2|CG:2|CV:2")
	// S7'' overlapping seed derivations with DIFFERENT arguments, followed by another call (a memo
	// whose bookkeeping is locked but whose logic confuses two derivations in flight shows here)
	add("SD:2|SD:5,SD:5")
	add("SD:2,SD:5|SD:5,SD:2")
	add("SP:2|SP:5,SP:2")
	add("SM:2,SM:5|SM:5")
	// S8 unsupported language next to English
	add("CV:10|CV:2")
	add("GE:10|CV:2")
	add("CV:-1|CZ:2")
	return sc
}

func runC12(tier string) int {
	t0 := time.Now()
	r := newHistResult("C12", tier)
	ov, info := instrumentPackage(false)
	worker := buildWorkerOv("worker_sched", writeOverlay(ov))
	ovd, infod := instrumentPackage(true)
	workerDense := buildWorkerOv("worker_dense", writeOverlay(ovd))
	thorough := tier == "thorough"
	bound, k := 2, 3
	if thorough {
		bound, k = 3, 4
	}
	scenarios := c12Scenarios(thorough)
	uns, _ := info["unmodelled_sync_constructs"].([]string)
	hb := len(uns) == 0
	// baseline: every operation alone in a fresh process (scheduler inactive)
	opset := map[string]bool{}
	for _, sc := range scenarios {
		for _, t := range parseScenarioOps(sc) {
			for _, op := range t {
				opset[op] = true
			}
		}
	}
	baseline := map[string]string{}
	var ops []string
	for op := range opset {
		ops = append(ops, op)
	}
	sort.Strings(ops)
	var hs [][]string
	for _, op := range ops {
		if strings.HasPrefix(op, "NS:") {
			baseline[op] = "NS-consistent"
			if strings.HasSuffix(op, ":F") {
				// the drawer's source breaks down in the middle of this call: failing closed with the
				// source's error is what the call does alone
				baseline[op] = "NS-failed-closed"
			}
			continue
		}
		hs = append(hs, []string{op})
	}
	outs, err := parallelHist(worker, hs)
	if err != nil {
		die("%v", err)
	}
	for i, h := range outs {
		baseline[hs[i][0]] = h.Steps[0].Outcome
	}
	tExplore := time.Now()
	r.Extra["seconds_build_and_baseline"] = time.Since(t0).Seconds()
	st := &schedStats{distinctOutcomes: map[string]bool{}, distinctFinal: map[string]bool{}}
	perScenario := map[string]int64{}
	type vrec struct {
		schedViolation
		dense bool
	}
	var allv []vrec
	boundVar := func(sc string) int {
		if strings.Count(sc, "|") >= 3 {
			return bound - 2 // four threads
		}
		if strings.Count(sc, "|") >= 2 {
			return bound - 1 // three-thread scenarios: one preemption less
		}
		return bound
	}
	cooperative := len(uns) == 0
	exploreScenarios := scenarios
	if !cooperative {
		// the package synchronises through constructs the shims do not model (channels, goroutines,
		// select, sync.Cond): a thread parked by the cooperative scheduler could block the others for
		// real. The schedule exploration is skipped (and the run is not exhaustive); the free-running
		// pass below (real goroutines, race detector, results compared with the baseline) decides.
		exploreScenarios = nil
		r.Exhaustive = false
		r.Extra["schedule_exploration_skipped"] = "unmodelled synchronisation constructs: " + strings.Join(uns, ", ")
	}
	v1, fb1, err := exploreAll(worker, exploreScenarios, boundVar, baseline, k, hb, st, perScenario)
	if err != nil {
		die("%v", err)
	}
	for _, x := range v1 {
		allv = append(allv, vrec{x, false})
	}
	r.Extra["seconds_exploration_variable_level"] = time.Since(tExplore).Seconds()
	// second pass: a scheduling point before EVERY statement of the package (reaches accesses
	// made through pointers and local aliases), one preemption less
	tDense := time.Now()
	stD := &schedStats{distinctOutcomes: map[string]bool{}, distinctFinal: map[string]bool{}}
	boundDense := func(sc string) int {
		if strings.Count(sc, "|") >= 2 {
			return 1
		}
		return bound - 1 // (four-thread scenarios also run with one preemption at statement level)
	}
	perD := map[string]int64{}
	v2, fb2, err := exploreAll(workerDense, exploreScenarios, boundDense, baseline, 2, hb, stD, perD)
	if err != nil {
		die("%v", err)
	}
	for _, x := range v2 {
		allv = append(allv, vrec{x, true})
	}
	denseScenarios := len(scenarios)
	r.Extra["scenarios_explored_with_one_process_per_execution"] = append(fb1, fb2...)
	r.Extra["seconds_exploration_dense"] = time.Since(tDense).Seconds()
	r.Extra["dense_pass"] = map[string]interface{}{"scenarios": denseScenarios, "executions": stD.executions, "scheduling_points_total": stD.points, "max_points_in_one_execution": stD.maxPoints,
		"instrumented_sites": infod["instrumented_sites"], "preemption_bound": bound - 1, "preemptible_visits_per_site": 2, "executions_with_a_wait_on_a_sync_object": stD.interleaved}
	// report the violation with the fewest preemptions per scenario, after re-running it 3x
	sort.SliceStable(allv, func(i, j int) bool {
		if allv[i].cost != allv[j].cost {
			return allv[i].cost < allv[j].cost
		}
		return len(allv[i].choices) < len(allv[j].choices)
	})
	reported := map[string]bool{}
	for _, v := range allv {
		r.ViolationCount++
		if reported[v.scenario] || len(r.Violations) >= 40 {
			continue
		}
		reported[v.scenario] = true
		same := true
		w, kk := worker, k
		if v.dense {
			w, kk = workerDense, 2
		}
		for rep := 0; rep < 3; rep++ {
			again, err := runSched(w, v.scenario, v.choices, kk, hb)
			if err != nil {
				die("%v", err)
			}
			if len(again.Points) != len(v.choices) || again.Diverged != "" {
				same = false
			}
		}
		if !same {
			die("schedule %s [%s] does not replay deterministically", v.scenario, choicesString(v.choices))
		}
		r.Violations = append(r.Violations, Violation{Key: fmt.Sprintf("sched:%s:%s", v.scenario, choicesString(v.choices)),
			What: fmt.Sprintf("scenario %s, schedule [%s] (%d preemptions): %s", v.scenario, choicesString(v.choices), v.cost, v.what),
			Case: map[string]interface{}{"kind": "schedule", "scenario": v.scenario, "choices": choicesString(v.choices), "k": kk, "dense": v.dense}})
	}
	// supplementary free-running pass under the Go race detector (sampling; reported separately)
	tRace := time.Now()
	if !cooperative && !thorough {
		raceRepsOverride = 8 // more repetitions: the sampling pass is all there is
	}
	raceRuns, raceReports, raceNote := racePass(scenarios, thorough, r, baseline)
	r.Extra["seconds_race_pass"] = time.Since(tRace).Seconds()
	r.Evaluations = st.executions + stD.executions
	r.Distinct = int64(len(st.distinctOutcomes))
	if !cooperative {
		// only the free-running pass ran: count its executions, one distinct case per scenario
		r.Evaluations = int64(raceRuns)
		r.Distinct = int64(len(scenarios))
	}
	r.Rule = fmt.Sprintf("stateless exploration of thread schedules on an instrumented copy of the package (sync/atomic redirected to cooperative shims, a scheduling point before every statement that mentions a package-level variable, first %d dynamic visits per (thread, site) preemptible): for each of %d closed scenarios (2-3 goroutines, forced collisions on cold lazily built tables, shared source, crossed orders, unsupported language) every schedule with at most %d preemptions (one less for three-thread scenarios) is executed, each from a cold package state: executions of one scenario run inside one process whose package-level variables are restored to their initial values, with the deep state fingerprint checked against the untouched process after every restore (fallback: one fresh OS process per execution); every violation is confirmed by replaying its schedule in a fresh OS process. A second pass repeats all scenarios with a scheduling point before EVERY statement of the package (accesses through pointers and local aliases) at one preemption less. Oracle per execution: every call returns what it returns alone in a fresh process; no deadlock; caller buffers and returned values intact; vector-clock happens-before detector over the recorded accesses reports no unordered conflicting pair. distinct_nontrivial = distinct (scenario, vector of results) observed; see interleaved_executions for how many executions really collided", k, len(scenarios), bound)
	for k2, v := range info {
		r.Extra[k2] = v
	}
	r.Extra["scenarios"] = len(scenarios)
	r.Extra["preemption_bound_completed"] = bound
	r.Extra["executions_total"] = st.executions
	r.Extra["scheduling_points_total"] = st.points
	r.Extra["max_points_in_one_execution"] = st.maxPoints
	r.Extra["interleaved_executions_a_thread_waited_on_a_sync_object"] = st.interleaved
	r.Extra["executions_with_at_least_one_preemption"] = st.preempted
	r.Extra["distinct_final_states"] = len(st.distinctFinal)
	r.Extra["happens_before_detector_enabled"] = hb
	r.Extra["race_detector_pass_runs"] = raceRuns
	r.Extra["race_detector_pass_reports"] = raceReports
	r.Extra["race_detector_pass_note"] = raceNote
	ex := map[string]int64{}
	for _, sc := range scenarios {
		ex[sc] = perScenario[sc]
	}
	r.Extra["executions_per_scenario"] = ex
	r.Samples = append(r.Samples, schedSamples...)
	if len(r.Samples) == 0 {
		r.Samples = append(r.Samples, map[string]interface{}{"scenario": scenarios[0], "note": "free-running pass only"})
	}
	r.Assumptions = []string{"<=3 goroutines, preemption bound as stated, K preemptible visits per site; weak-memory effects beyond happens-before races are not modelled", "the instrumenter's insertions only record and yield; the shims have the blocking semantics of sync", "free-running -race pass is sampling and never what makes the run count as exhaustive"}
	if !hb {
		r.Exhaustive = false
	}
	return finish("C12", tier, r, t0)
}

var raceRepsOverride int

// schedSamples collects a few actually executed schedules for the evidence.
var schedSamples []interface{}

// racePass runs the scenario bodies free-running in a -race build.
func racePass(scenarios []string, thorough bool, r *Result, baselines ...map[string]string) (runs, reports int, note string) {
	var baseline map[string]string
	if len(baselines) > 0 {
		baseline = baselines[0]
	}
	out := scratch + "/worker_race"
	env := append(goEnv(), "CGO_ENABLED=1")
	args := []string{"build", "-race", "-tags", "verif", "-overlay", writeOverlay(), "-o", out}
	if repoDir != "/repo" {
		args = append(args, "-modfile="+scratch+"/go.mod")
	}
	args = append(args, "./cmd/worker")
	if o, err := runCmd(verifDir, env, "go", args...); err != nil {
		return 0, 0, "race-enabled build not available: " + lastLines(o, 2)
	}
	reps := 2
	if thorough {
		reps = 30
	}
	if raceRepsOverride > 0 {
		reps = raceRepsOverride
	}
	type job struct {
		sc  string
		rep int
	}
	var jobs []job
	for _, sc := range scenarios {
		for i := 0; i < reps; i++ {
			jobs = append(jobs, job{sc, i})
		}
	}
	var mu sync.Mutex
	seen := map[string]bool{}
	ch := make(chan job, len(jobs))
	for _, j := range jobs {
		ch <- j
	}
	close(ch)
	var wg sync.WaitGroup
	for w := 0; w < runtime.NumCPU(); w++ {
		wg.Add(1)
		go func() {
			defer wg.Done()
			for j := range ch {
				ctx, cancel := context.WithTimeout(context.Background(), 300*time.Second)
				cmd := exec.CommandContext(ctx, out, "-prop", "race", j.sc, strconv.Itoa(j.rep))
				cmd.Env = append(os.Environ(), "VERIF_DIR="+verifDir, "GORACE=halt_on_error=1 exitcode=66", "GOMAXPROCS=3")
				var stderr, stdout bytes.Buffer
				cmd.Stderr = &stderr
				cmd.Stdout = &stdout
				err := cmd.Run()
				timedOut := ctx.Err() != nil
				cancel()
				mu.Lock()
				runs++
				if timedOut {
					if !seen["hang:"+j.sc] && len(r.Violations) < 40 {
						seen["hang:"+j.sc] = true
						r.ViolationCount++
						r.Violations = append(r.Violations, Violation{Key: "hang:" + j.sc,
							What: fmt.Sprintf("scenario %s free-running on real goroutines did not finish within 300 s (deadlock or livelock)", j.sc),
							Case: map[string]interface{}{"kind": "race", "scenario": j.sc}})
					}
					mu.Unlock()
					continue
				}
				if err == nil && baseline != nil {
					// results of the free-running execution against the results of the calls run alone
					var outcomes [][]string
					if json.Unmarshal(extractResult(stdout.Bytes()), &outcomes) == nil {
						for ti, t := range parseScenarioOps(j.sc) {
							for k, op := range t {
								if strings.HasPrefix(op, "NS:") || strings.HasPrefix(op, "ND") {
									continue
								}
								if ti < len(outcomes) && k < len(outcomes[ti]) && outcomes[ti][k] != baseline[op] && !seen["result:"+j.sc] && len(r.Violations) < 40 {
									seen["result:"+j.sc] = true
									r.ViolationCount++
									r.Violations = append(r.Violations, Violation{Key: "freerun:" + j.sc,
										What: fmt.Sprintf("scenario %s free-running on real goroutines from a cold start: thread %d call %s returned %q, alone it returns %q", j.sc, ti, op, clipS(outcomes[ti][k]), clipS(baseline[op])),
										Case: map[string]interface{}{"kind": "race", "scenario": j.sc}})
								}
							}
						}
					}
				}
				if err != nil && strings.Contains(stderr.String(), "DATA RACE") {
					reports++
					if !seen[j.sc] && len(r.Violations) < 40 {
						seen[j.sc] = true
						r.ViolationCount++
						r.Violations = append(r.Violations, Violation{Key: "race:" + j.sc,
							What: fmt.Sprintf("Go race detector, scenario %s free-running from a cold start: %s", j.sc, raceExcerpt(stderr.String())),
							Case: map[string]interface{}{"kind": "race", "scenario": j.sc}})
					}
				} else if err != nil && !seen["crash:"+j.sc] && len(r.Violations) < 40 {
					seen["crash:"+j.sc] = true
					r.ViolationCount++
					r.Violations = append(r.Violations, Violation{Key: "crash:" + j.sc,
						What: fmt.Sprintf("scenario %s free-running from a cold start crashed: %v: %s", j.sc, err, lastLines(stderr.String(), 3)),
						Case: map[string]interface{}{"kind": "race", "scenario": j.sc}})
				}
				mu.Unlock()
			}
		}()
	}
	wg.Wait()
	return runs, reports, "same scenario bodies on real goroutines released from a barrier, uninstrumented package, go build -race"
}

func raceExcerpt(s string) string {
	var keep []string
	for _, l := range strings.Split(s, "\n") {
		l = strings.TrimSpace(l)
		if strings.HasPrefix(l, "WARNING: DATA RACE") || strings.HasPrefix(l, "Write at") || strings.HasPrefix(l, "Read at") || strings.HasPrefix(l, "Previous") || strings.Contains(l, "/bip39") && strings.Contains(l, ".go:") {
			keep = append(keep, l)
		}
		if len(keep) >= 8 {
			break
		}
	}
	return strings.Join(keep, " | ")
}

func replayC12(path string) int {
	data, err := os.ReadFile(path)
	if err != nil {
		die("%v", err)
	}
	var rep struct {
		What string `json:"what"`
		Case struct {
			Kind     string `json:"kind"`
			Scenario string `json:"scenario"`
			Choices  string `json:"choices"`
			K        int    `json:"k"`
			Dense    bool   `json:"dense"`
		} `json:"case"`
	}
	if err := json.Unmarshal(data, &rep); err != nil {
		die("%v", err)
	}
	fmt.Printf("replaying C12 %s %s\nrecorded: %s\n", rep.Case.Kind, rep.Case.Scenario, rep.What)
	if rep.Case.Kind == "race" {
		res := newHistResult("C12", "quick")
		runs, reports, note := racePass([]string{rep.Case.Scenario}, true, res)
		fmt.Printf(" %d free-running runs, %d race reports (%s)\n", runs, reports, note)
		for _, v := range res.Violations {
			fmt.Println(" " + v.What)
		}
		if len(res.Violations) > 0 {
			fmt.Printf("VIOLATION property=C12 replay=%s\n", path)
			return 1
		}
		return 0
	}
	ov, _ := instrumentPackage(rep.Case.Dense)
	worker := buildWorkerOv("worker_sched", writeOverlay(ov))
	var prefix []int
	for _, c := range strings.Split(rep.Case.Choices, ",") {
		if c != "" {
			x, _ := strconv.Atoi(c)
			prefix = append(prefix, x)
		}
	}
	out, err := runSched(worker, rep.Case.Scenario, prefix, rep.Case.K, true)
	if err != nil {
		die("%v", err)
	}
	for i, p := range out.Points {
		fmt.Printf(" point %2d enabled=%v choose %d  (%s)\n", i, p.Enabled, p.Choice, p.What)
	}
	fmt.Printf(" outcomes: %v\n deadlock: %q\n races: %v\n", out.Outcomes, out.Deadlock, out.Races)
	bad := out.Deadlock != "" || len(out.Races) > 0
	for ti, t := range parseScenarioOps(rep.Case.Scenario) {
		for j, op := range t {
			if strings.HasPrefix(op, "NS:") {
				if out.Outcomes[ti][j] != "NS-consistent" {
					bad = true
				}
				continue
			}
			alone, err := runHistory(worker, []string{op})
			if err != nil {
				die("%v", err)
			}
			if ti < len(out.Outcomes) && j < len(out.Outcomes[ti]) && alone.Steps[0].Outcome != out.Outcomes[ti][j] {
				fmt.Printf(" thread %d %s: %q but alone %q\n", ti, op, out.Outcomes[ti][j], alone.Steps[0].Outcome)
				bad = true
			}
		}
	}
	if bad {
		fmt.Printf("VIOLATION property=C12 replay=%s\n", path)
		return 1
	}
	fmt.Println("replay: schedule passes on the current tree")
	return 0
}
