package main

import (
	"bytes"
	"encoding/json"
	"fmt"
	"go/ast"
	"go/build"
	"go/format"
	"go/parser"
	"go/token"
	"os"
	"path/filepath"
	"sort"
	"strconv"
	"strings"
)

// packageVars lists the package-level variable names declared in the non-test
// Go files of dir that are part of a build with the "verif" tag.
func packageVars(dir string, exportedOnly bool) (pkgName string, vars []string, files []string, err error) {
	ctx := build.Default
	ctx.BuildTags = append(ctx.BuildTags, "verif")
	ctx.CgoEnabled = false
	ents, err := os.ReadDir(dir)
	if err != nil {
		return "", nil, nil, err
	}
	fset := token.NewFileSet()
	for _, e := range ents {
		name := e.Name()
		if e.IsDir() || !strings.HasSuffix(name, ".go") || strings.HasSuffix(name, "_test.go") {
			continue
		}
		if ok, _ := ctx.MatchFile(dir, name); !ok {
			continue
		}
		f, err := parser.ParseFile(fset, filepath.Join(dir, name), nil, 0)
		if err != nil {
			return "", nil, nil, err
		}
		pkgName = f.Name.Name
		files = append(files, name)
		for _, d := range f.Decls {
			gd, ok := d.(*ast.GenDecl)
			if !ok || gd.Tok != token.VAR {
				continue
			}
			for _, sp := range gd.Specs {
				for _, id := range sp.(*ast.ValueSpec).Names {
					if id.Name == "_" || (exportedOnly && !id.IsExported()) {
						continue
					}
					vars = append(vars, id.Name)
				}
			}
		}
	}
	sort.Strings(vars)
	return
}

// modPkg is one package of the module under test.
type modPkg struct {
	dir, rel, importPath, name string
	vars, exported, files      []string
	importsRoot                bool
}

func modulePath() string {
	data, err := os.ReadFile(filepath.Join(repoDir, "go.mod"))
	if err != nil {
		die("%v", err)
	}
	for _, l := range strings.Split(string(data), "\n") {
		if strings.HasPrefix(strings.TrimSpace(l), "module ") {
			return strings.TrimSpace(strings.TrimPrefix(strings.TrimSpace(l), "module "))
		}
	}
	die("no module line in go.mod")
	return ""
}

// modulePackages lists the library packages of the module (root first): every directory with
// non-test Go files that is not a command (package main), not hidden and not testdata.
func modulePackages() []modPkg {
	mod := modulePath()
	var out []modPkg
	filepath.Walk(repoDir, func(path string, fi os.FileInfo, err error) error {
		if err != nil || !fi.IsDir() {
			return nil
		}
		base := filepath.Base(path)
		if path != repoDir && (strings.HasPrefix(base, ".") || strings.HasPrefix(base, "_") || base == "testdata" || base == "vendor") {
			return filepath.SkipDir
		}
		name, vars, files, err := packageVars(path, false)
		if err != nil || len(files) == 0 || name == "main" {
			return nil
		}
		_, exp, _, _ := packageVars(path, true)
		rel, _ := filepath.Rel(repoDir, path)
		p := modPkg{dir: path, rel: rel, name: name, vars: vars, exported: exp, files: files, importPath: mod}
		if rel != "." {
			p.importPath = mod + "/" + filepath.ToSlash(rel)
		}
		// does it import the root package (then the root cannot import it back)?
		for _, f := range files {
			fset := token.NewFileSet()
			af, err := parser.ParseFile(fset, filepath.Join(path, f), nil, parser.ImportsOnly)
			if err != nil {
				continue
			}
			for _, im := range af.Imports {
				if strings.Trim(im.Path.Value, "\"") == mod {
					p.importsRoot = true
				}
			}
		}
		out = append(out, p)
		return nil
	})
	sort.SliceStable(out, func(i, j int) bool { return out[i].rel == "." && out[j].rel != "." })
	return out
}

// redirectImports writes, for every non-test file of the root package that
// imports `from`, a copy in scratch whose import is redirected to `to` (keeping
// the local name), and returns the overlay entries original -> copy.
func redirectImports(from, to, defaultName string) map[string]string {
	out := map[string]string{}
	for pi, p := range modulePackages() {
		for _, name := range p.files {
			fset := token.NewFileSet()
			path := filepath.Join(p.dir, name)
			f, err := parser.ParseFile(fset, path, nil, parser.ParseComments)
			if err != nil {
				die("%v", err)
			}
			changed := false
			for _, im := range f.Imports {
				if im.Path.Value == fmt.Sprintf("%q", from) {
					im.Path.Value = fmt.Sprintf("%q", to)
					if im.Name == nil {
						im.Name = ast.NewIdent(defaultName)
					}
					changed = true
				}
			}
			if !changed {
				continue
			}
			var b bytes.Buffer
			if err := format.Node(&b, fset, f); err != nil {
				die("printing %s: %v", name, err)
			}
			dst := filepath.Join(scratch, fmt.Sprintf("redir_%s_%d_%s", strings.Replace(to, "/", "_", -1), pi, name))
			if err := os.WriteFile(dst, b.Bytes(), 0644); err != nil {
				die("%v", err)
			}
			out[path] = dst
		}
	}
	return out
}

// writeOverlay generates the private-state accessor for package bip39 from the
// current tree and returns the path of an overlay file that adds it to /repo
// without writing into /repo.
func writeOverlay(extra ...map[string]string) string {
	pkgs := modulePackages()
	if len(pkgs) == 0 || pkgs[0].rel != "." {
		die("no root package found in %s", repoDir)
	}
	root := pkgs[0]
	accessors := map[string]string{} // overlay entries for the per-package accessors
	var b bytes.Buffer
	b.WriteString("// Code generated by vcheck from the current tree; never written into the repository.\n\n//go:build verif\n// +build verif\n\npackage " + root.name + "\n\n")
	var merged []string
	for i, p := range pkgs[1:] {
		if p.importsRoot || len(p.vars) == 0 {
			continue
		}
		alias := fmt.Sprintf("verifpkg%d", i)
		fmt.Fprintf(&b, "import %s %q\n", alias, p.importPath)
		prefix := filepath.Base(p.rel)
		merged = append(merged, fmt.Sprintf("\tfor k, v := range %s.VerifStateVars() {\n\t\tm[%q+k] = v\n\t}\n", alias, prefix+"."))
		var pb bytes.Buffer
		pb.WriteString("// Code generated by vcheck from the current tree; never written into the repository.\n\n//go:build verif\n// +build verif\n\npackage " + p.name + "\n\n// VerifStateVars returns a pointer to every package-level variable.\nfunc VerifStateVars() map[string]interface{} {\n\treturn map[string]interface{}{\n")
		for _, v := range p.vars {
			fmt.Fprintf(&pb, "\t\t%q: &%s,\n", v, v)
		}
		pb.WriteString("\t}\n}\n")
		pgen := filepath.Join(scratch, fmt.Sprintf("zz_verif_state_gen_%d.go", i))
		if err := os.WriteFile(pgen, pb.Bytes(), 0644); err != nil {
			die("%v", err)
		}
		accessors[filepath.Join(p.dir, "zz_verif_state_gen.go")] = pgen
	}
	b.WriteString("\n// VerifStateVars returns a pointer to every package-level variable of the module's packages.\nfunc VerifStateVars() map[string]interface{} {\n\tm := map[string]interface{}{\n")
	for _, v := range root.vars {
		fmt.Fprintf(&b, "\t\t%q: &%s,\n", v, v)
	}
	b.WriteString("\t}\n")
	for _, m := range merged {
		b.WriteString(m)
	}
	b.WriteString("\treturn m\n}\n")
	gen := filepath.Join(scratch, "zz_verif_state_gen.go")
	if err := os.WriteFile(gen, b.Bytes(), 0644); err != nil {
		die("%v", err)
	}
	extra = append(extra, accessors)
	ov := map[string]map[string]string{"Replace": {filepath.Join(repoDir, "zz_verif_state_gen.go"): gen}}
	tag := ""
	for _, ex := range extra {
		for k, v := range ex {
			ov["Replace"][k] = v
			tag = "x"
		}
	}
	data, _ := json.Marshal(ov)
	path := filepath.Join(scratch, "overlay"+tag+".json")
	if err := os.WriteFile(path, data, 0644); err != nil {
		die("%v", err)
	}
	return path
}

// envVarsRead lists the environment variables the root package reads through
// os.Getenv / os.LookupEnv / syscall.Getenv with a literal name: the process
// environment is an input the harness has to own.
func envVarsRead() []string {
	seen := map[string]bool{}
	for _, p := range modulePackages() {
		for _, name := range p.files {
			fset := token.NewFileSet()
			f, err := parser.ParseFile(fset, filepath.Join(p.dir, name), nil, 0)
			if err != nil {
				die("%v", err)
			}
			ast.Inspect(f, func(n ast.Node) bool {
				call, ok := n.(*ast.CallExpr)
				if !ok || len(call.Args) < 1 {
					return true
				}
				sel, ok := call.Fun.(*ast.SelectorExpr)
				if !ok || (sel.Sel.Name != "Getenv" && sel.Sel.Name != "LookupEnv") {
					return true
				}
				if lit, ok := call.Args[0].(*ast.BasicLit); ok && lit.Kind == token.STRING {
					if v, err := strconv.Unquote(lit.Value); err == nil {
						seen[v] = true
					}
				}
				return true
			})
		}
	}
	var out []string
	for v := range seen {
		out = append(out, v)
	}
	sort.Strings(out)
	return out
}
