package main

import (
	"bytes"
	"context"
	"fmt"
	"go/ast"
	"go/parser"
	"go/token"
	"net"
	"net/http"
	"os"
	"os/exec"
	"path/filepath"
	"runtime"
	"sort"
	"strconv"
	"strings"
	"sync"
	"time"
)

func init() {
	special["C17"] = runC17
	specialReplay["C17"] = replayC17
}

// targets of the generator: upstream file stem -> exported variable.
var genTargets = []struct{ stem, variable string }{
	{"chinese_simplified", "ChineseSimplified"}, {"chinese_traditional", "ChineseTraditional"},
	{"english", "English"}, {"french", "French"}, {"italian", "Italian"}, {"japanese", "Japanese"},
	{"korean", "Korean"}, {"spanish", "Spanish"}, {"czech", "Czech"}, {"portuguese", "Portuguese"},
}

// genServer is one loopback stand-in for raw.githubusercontent.com.
type genServer struct {
	mu    sync.Mutex
	files map[string][]byte // stem -> body
	hits  map[string]int
	other []string
	chunk int            // > 0: bodies are sent in pieces of this many bytes, flushed one by one (chunked transfer)
	cut   map[string]int // stem -> the first response for it declares the full length and is aborted after this many bytes
	srv   *http.Server
	base  string
}

func newGenServer() *genServer {
	g := &genServer{}
	ln, err := net.Listen("tcp", "127.0.0.1:0")
	if err != nil {
		die("cannot listen on loopback: %v", err)
	}
	g.base = "http://" + ln.Addr().String()
	g.srv = &http.Server{Handler: http.HandlerFunc(g.handle)}
	go g.srv.Serve(ln)
	return g
}

func (g *genServer) handle(w http.ResponseWriter, r *http.Request) {
	g.mu.Lock()
	defer g.mu.Unlock()
	const prefix = "/bitcoin/bips/master/bip-0039/"
	if strings.HasPrefix(r.URL.Path, prefix) && strings.HasSuffix(r.URL.Path, ".txt") {
		stem := strings.TrimSuffix(strings.TrimPrefix(r.URL.Path, prefix), ".txt")
		if body, ok := g.files[stem]; ok {
			g.hits[stem]++
			w.Header().Set("Content-Type", "text/plain; charset=utf-8")
			if j, ok := g.cut[stem]; ok && j < 0 {
				// the connection drops before any answer, on EVERY request for this target: net/http
				// transparently repeats an idempotent request that failed on a reused connection, so a
				// one-off drop would reach the tool only when this target happens to be fetched first
				panic(http.ErrAbortHandler)
			}
			if j, ok := g.cut[stem]; ok && g.hits[stem] == 1 {
				// transport fault: the transfer breaks off (a retry gets the whole file)
				w.Header().Set("Content-Length", fmt.Sprint(len(body)))
				w.WriteHeader(200)
				w.Write(body[:j])
				if f, ok := w.(http.Flusher); ok {
					f.Flush()
				}
				panic(http.ErrAbortHandler)
			}
			if g.chunk > 0 {
				f, _ := w.(http.Flusher)
				for i := 0; i < len(body); i += g.chunk {
					e := i + g.chunk
					if e > len(body) {
						e = len(body)
					}
					w.Write(body[i:e])
					if f != nil {
						f.Flush()
					}
				}
				return
			}
			w.Write(body)
			return
		}
	}
	g.other = append(g.other, r.URL.Path)
	http.NotFound(w, r)
}

func (g *genServer) set(files map[string][]byte) {
	g.mu.Lock()
	g.files = files
	g.hits = map[string]int{}
	g.other = nil
	g.cut = nil
	g.chunk = 0
	g.mu.Unlock()
}

func (g *genServer) setChunk(n int) {
	g.mu.Lock()
	g.chunk = n
	g.mu.Unlock()
}

func (g *genServer) setCut(cut map[string]int) {
	g.mu.Lock()
	g.cut = cut
	g.mu.Unlock()
}

// parseGenerated extracts package name and the single []string variable of a generated file.
func parseGenerated(path string) (pkg, variable string, list []string, err error) {
	fset := token.NewFileSet()
	f, err := parser.ParseFile(fset, path, nil, 0)
	if err != nil {
		return "", "", nil, err
	}
	pkg = f.Name.Name
	nvars := 0
	for _, d := range f.Decls {
		gd, ok := d.(*ast.GenDecl)
		if !ok {
			return pkg, "", nil, fmt.Errorf("unexpected declaration")
		}
		if gd.Tok == token.IMPORT {
			continue
		}
		if gd.Tok != token.VAR {
			return pkg, "", nil, fmt.Errorf("unexpected %s declaration", gd.Tok)
		}
		for _, sp := range gd.Specs {
			vs := sp.(*ast.ValueSpec)
			if len(vs.Names) != 1 || len(vs.Values) != 1 {
				return pkg, "", nil, fmt.Errorf("unexpected var spec")
			}
			nvars++
			variable = vs.Names[0].Name
			cl, ok := vs.Values[0].(*ast.CompositeLit)
			if !ok {
				return pkg, variable, nil, fmt.Errorf("value of %s is not a composite literal", variable)
			}
			at, ok := cl.Type.(*ast.ArrayType)
			if !ok || at.Len != nil {
				return pkg, variable, nil, fmt.Errorf("%s is not a slice literal", variable)
			}
			if id, ok := at.Elt.(*ast.Ident); !ok || id.Name != "string" {
				return pkg, variable, nil, fmt.Errorf("%s is not a []string", variable)
			}
			list = []string{}
			for _, el := range cl.Elts {
				bl, ok := el.(*ast.BasicLit)
				if !ok || bl.Kind != token.STRING {
					return pkg, variable, nil, fmt.Errorf("%s has a non-literal element", variable)
				}
				s, err := strconv.Unquote(bl.Value)
				if err != nil {
					return pkg, variable, nil, err
				}
				list = append(list, s)
			}
		}
	}
	if nvars != 1 {
		return pkg, variable, nil, fmt.Errorf("%d variables declared, want 1", nvars)
	}
	return
}

func expectedList(body []byte) []string {
	out := []string{}
	for _, l := range strings.Split(string(body), "\n") {
		if l != "" {
			out = append(out, l)
		}
	}
	return out
}

func equalLists(a, b []string) bool {
	if len(a) != len(b) {
		return false
	}
	for i := range a {
		if a[i] != b[i] {
			return false
		}
	}
	return true
}

// runGenerator runs the real tool once against srv with the given ten bodies and
// returns a description of every deviation from the oracle.
func runGenerator(tool string, srv *genServer, bodies map[string][]byte, keepDir string) (problems []string, mach error) {
	return runGeneratorFault(tool, srv, bodies, keepDir, nil)
}

// runGeneratorFault is runGenerator with transfers that break off (cut: stem -> bytes delivered
// before the connection is aborted). A tool that then exits non-zero has failed closed and is not
// judged further; one that exits 0 must have produced the faithful lists all the same.
func runGeneratorFault(tool string, srv *genServer, bodies map[string][]byte, keepDir string, cut map[string]int) (problems []string, mach error) {
	srv.set(bodies)
	srv.setCut(cut)
	blocked := -1
	if b, ok := cut["#block"]; ok && len(cut) == 1 {
		// file-system fault rather than a transport fault: the output path of one target cannot be
		// opened for writing (a directory sits there)
		blocked = b
		srv.setCut(nil)
	}
	if c, ok := cut["#chunk"]; ok {
		// delivery pattern rather than a fault: every body arrives in flushed pieces of c bytes
		srv.setCut(nil)
		srv.setChunk(c)
		cut = nil
	}
	dir := keepDir
	if dir == "" {
		var err error
		dir, err = os.MkdirTemp(scratch, "gen-")
		if err != nil {
			return nil, err
		}
		defer os.RemoveAll(dir)
	}
	if err := os.MkdirAll(filepath.Join(dir, "internal", "wordlist"), 0755); err != nil {
		return nil, err
	}
	if blocked >= 0 {
		if err := os.MkdirAll(filepath.Join(dir, "internal", "wordlist", genTargets[blocked].stem+".go", "x"), 0755); err != nil {
			return nil, err
		}
	}
	ctx, cancel := context.WithTimeout(context.Background(), 120*time.Second)
	defer cancel()
	cmd := exec.CommandContext(ctx, tool)
	cmd.Dir = dir
	cmd.Env = append(os.Environ(), "BIP39_VERIF_WORDLIST_BASE="+srv.base, "http_proxy=", "https_proxy=", "HTTP_PROXY=", "HTTPS_PROXY=", "NO_PROXY=*")
	out, err := cmd.CombinedOutput()
	if ctx.Err() != nil {
		return []string{"the tool did not finish within 120 s"}, nil
	}
	if err != nil {
		if len(cut) > 0 {
			return nil, nil
		}
		return []string{fmt.Sprintf("the tool failed: %v: %s", err, lastLines(string(out), 3))}, nil
	}
	srv.mu.Lock()
	hits, other := srv.hits, srv.other
	srv.mu.Unlock()
	for _, t := range genTargets {
		if hits[t.stem] < 1 {
			problems = append(problems, fmt.Sprintf("%s.txt was never requested", t.stem))
		}
	}
	_ = other // requests for other paths (retries, probes) are not constrained by the property
	var dumped map[string][]string
	dumpTried := false
	for _, t := range genTargets {
		path := filepath.Join(dir, "internal", "wordlist", t.stem+".go")
		pkg, variable, list, err := parseGenerated(path)
		want := expectedList(bodies[t.stem])
		if err != nil {
			if _, perr := parser.ParseFile(token.NewFileSet(), path, nil, 0); perr == nil {
				// valid Go, but the list is not written as a plain []string literal (e.g. a constant split
				// at start-up): the property does not prescribe a representation, so evaluate the
				// generated package for real and compare what its variables hold
				if !dumpTried {
					dumpTried = true
					var derr error
					dumped, derr = dumpGenerated(dir)
					if derr != nil {
						problems = append(problems, "the generated package does not compile or run: "+derr.Error())
					}
				}
				if dumped != nil {
					got, ok := dumped[t.variable]
					if !ok {
						problems = append(problems, fmt.Sprintf("the generated package has no variable %s", t.variable))
					} else if !equalLists(got, want) {
						problems = append(problems, fmt.Sprintf("%s: generated variable %s holds %+q, the non-empty input lines are %+q (input %+q)", t.stem, t.variable, clip(got), clip(want), clipS(string(bodies[t.stem]))))
					}
				}
				continue
			}
		}
		switch {
		case err != nil:
			problems = append(problems, fmt.Sprintf("%s.go does not parse as the expected Go file: %v", t.stem, err))
		case pkg != "wordlist":
			problems = append(problems, fmt.Sprintf("%s.go declares package %s, want wordlist", t.stem, pkg))
		case variable != t.variable:
			problems = append(problems, fmt.Sprintf("%s.go declares variable %s, want %s", t.stem, variable, t.variable))
		case !equalLists(list, want):
			problems = append(problems, fmt.Sprintf("%s.go: list %+q differs from the non-empty input lines %+q (input %+q)", t.stem, clip(list), clip(want), clipS(string(bodies[t.stem]))))
		}
	}
	return problems, nil
}

func clip(l []string) []string {
	if len(l) > 8 {
		return append(append([]string{}, l[:4]...), fmt.Sprintf("...(%d entries)...", len(l)), l[len(l)-1])
	}
	return l
}

func clipS(s string) string {
	if len(s) > 120 {
		return s[:60] + "..." + s[len(s)-40:]
	}
	return s
}

func lastLines(s string, n int) string {
	l := strings.Split(strings.TrimSpace(s), "\n")
	if len(l) > n {
		l = l[len(l)-n:]
	}
	return strings.Join(l, " | ")
}

// dumpGenerated compiles the package generated in dir/internal/wordlist together with a
// small program that prints its ten variables, and returns what they hold.
func dumpGenerated(dir string) (map[string][]string, error) {
	if err := os.WriteFile(filepath.Join(dir, "go.mod"), []byte("module gencheck\n\ngo 1.11\n"), 0644); err != nil {
		return nil, err
	}
	var b bytes.Buffer
	b.WriteString("package main\n\nimport (\n\t\"encoding/json\"\n\t\"os\"\n\n\twl \"gencheck/internal/wordlist\"\n)\n\nfunc main() {\n\tjson.NewEncoder(os.Stdout).Encode(map[string][]string{\n")
	for _, t := range genTargets {
		fmt.Fprintf(&b, "\t\t%q: wl.%s,\n", t.variable, t.variable)
	}
	b.WriteString("\t})\n}\n")
	if err := os.MkdirAll(filepath.Join(dir, "verifdump"), 0755); err != nil {
		return nil, err
	}
	if err := os.WriteFile(filepath.Join(dir, "verifdump", "main.go"), b.Bytes(), 0644); err != nil {
		return nil, err
	}
	cmd := exec.Command("go", "run", "./verifdump")
	cmd.Dir = dir
	cmd.Env = goEnv()
	var stderr bytes.Buffer
	cmd.Stderr = &stderr
	out, err := cmd.Output()
	if err != nil {
		return nil, fmt.Errorf("%v: %s", err, lastLines(stderr.String(), 3))
	}
	res := map[string][]string{}
	if err := jsonUnmarshal(out, &res); err != nil {
		return nil, err
	}
	for k, v := range res {
		if v == nil {
			res[k] = []string{}
		}
	}
	return res, nil
}

// line alphabet: letters and combining marks only, as the property states.
var lineAlphabet = []string{"", "a", "bc", "\u00e9", "e\u0301", "\u7684", "\u3042\u3044\u3053\u304f\u3057\u3093", "\u1100\u1161", "\U00020000\U0001b000", "\uf900\uff76\ufb01"}

func buildGeneratorTool() string {
	tool := filepath.Join(scratch, "update-wordlist")
	if o, err := runCmd(repoDir, goEnv(), "go", "build", "-tags", "verif", "-o", tool, "./update-wordlist"); err != nil {
		die("building update-wordlist failed:\n%s", o)
	}
	return tool
}

func synthWord(i int) string {
	// distinct words of lower-case letters
	s := ""
	for x := i + 26; x > 0; x /= 26 {
		s = string(rune('a'+x%26)) + s
	}
	return "w" + s
}

func runC17(tier string) int {
	t0 := time.Now()
	r := newHistResult("C17", tier)
	tool := buildGeneratorTool()
	// enumerate files
	maxLines := 3
	if tier == "thorough" {
		maxLines = 4
	}
	var files [][]byte
	seen := map[string]bool{}
	var rec func(lines []string)
	rec = func(lines []string) {
		for _, trailing := range []bool{false, true} {
			body := strings.Join(lines, "\n")
			if trailing && len(lines) > 0 {
				body += "\n"
			}
			if !seen[body] {
				seen[body] = true
				files = append(files, []byte(body))
			}
		}
		if len(lines) == maxLines {
			return
		}
		for _, a := range lineAlphabet {
			rec(append(append([]string(nil), lines...), a))
		}
	}
	rec(nil)
	nEnumerated := len(files)
	// size ladder
	for _, n := range []int{1, 2047, 2048, 2049, 5000, 20000, 100000} {
		var b bytes.Buffer
		for i := 0; i < n; i++ {
			b.WriteString(synthWord(i))
			b.WriteByte('\n')
		}
		files = append(files, b.Bytes())
	}
	// few but very long words (buffer / scanner / reader limits: 4 KiB, 64 KiB, 1 MiB)
	for _, wl := range []int{4095, 4097, 65535, 65537, 1<<20 + 1} {
		files = append(files, []byte(strings.Repeat("a", wl)+"\n"+strings.Repeat("\u00e9", wl/2)+"\nz"))
	}
	// batches of ten pairwise different files; rotation decides which target gets which file
	type batch struct {
		bodies map[string][]byte
		desc   string
	}
	var batches []batch
	rotations := []int{0}
	if tier == "thorough" {
		rotations = []int{0, 1, 2, 3, 4, 5, 6, 7, 8, 9}
	}
	for _, rot := range rotations {
		for i := 0; i < len(files); i += 10 {
			b := batch{bodies: map[string][]byte{}, desc: fmt.Sprintf("files[%d..%d) rotation %d", i, i+10, rot)}
			for k := 0; k < 10; k++ {
				f := files[(i+k)%len(files)]
				b.bodies[genTargets[(k+rot+i/10)%10].stem] = f
			}
			batches = append(batches, b)
		}
	}
	// canonical run: the golden lists
	canon := batch{bodies: map[string][]byte{}, desc: "canonical lists"}
	for _, t := range genTargets {
		data, err := os.ReadFile(filepath.Join(verifDir, "golden", t.stem+".txt"))
		if err != nil {
			die("%v", err)
		}
		canon.bodies[t.stem] = data
	}
	batches = append(batches, canon)
	// without the trailing newline too
	canon2 := batch{bodies: map[string][]byte{}, desc: "canonical lists without trailing newline"}
	for k, v := range canon.bodies {
		canon2.bodies[k] = bytes.TrimSuffix(v, []byte("\n"))
	}
	batches = append(batches, canon2)

	nsrv := runtime.NumCPU()
	results := make([][]string, len(batches))
	errs := make([]error, len(batches))
	ch := make(chan int, len(batches))
	for i := range batches {
		ch <- i
	}
	close(ch)
	var wg sync.WaitGroup
	for s := 0; s < nsrv; s++ {
		wg.Add(1)
		go func() {
			defer wg.Done()
			srv := newGenServer()
			defer srv.srv.Close()
			for i := range ch {
				results[i], errs[i] = runGenerator(tool, srv, batches[i].bodies, "")
			}
		}()
	}
	wg.Wait()
	distinctLists := map[string]bool{}
	for i, b := range batches {
		if errs[i] != nil {
			die("generator run %s: %v", b.desc, errs[i])
		}
		r.Evaluations += 10
		for _, body := range b.bodies {
			distinctLists[string(body)] = true
		}
		for _, p := range results[i] {
			r.ViolationCount++
			if len(r.Violations) < 40 {
				cs := map[string]interface{}{"kind": "generator", "bodies": map[string]string{}}
				for k, v := range b.bodies {
					if len(v) < 2048 {
						cs["bodies"].(map[string]string)[k] = fmt.Sprintf("%x", v)
					} else {
						cs["bodies"].(map[string]string)[k] = "omitted:" + b.desc
					}
				}
				r.Violations = append(r.Violations, Violation{Key: fmt.Sprintf("gen:%s:%d", b.desc, len(r.Violations)), What: b.desc + ": " + p, Case: cs})
			}
		}
	}
	// transport faults (one deviation from the default environment answer per run; thorough: two):
	// the transfer of one target breaks off after j bytes although the full length was announced.
	// Exit status 0 is only acceptable with ten faithful files.
	{
		small := map[string][]byte{}
		for k, t := range genTargets {
			small[t.stem] = []byte(fmt.Sprintf("%s\n%s\nz%d\n", synthWord(k), synthWord(k+100), k))
		}
		type fcase struct {
			bodies map[string][]byte
			cut    map[string]int
			desc   string
		}
		var fcases []fcase
		for _, t := range genTargets {
			n := len(canon.bodies[t.stem])
			for _, j := range []int{-1, 0, 1, n / 2, n - 1} {
				desc := fmt.Sprintf("canonical lists, %s.txt breaks off after %d of %d bytes", t.stem, j, n)
				if j < 0 {
					desc = fmt.Sprintf("canonical lists, the connection for %s.txt drops before any answer", t.stem)
				}
				fcases = append(fcases, fcase{canon.bodies, map[string]int{t.stem: j}, desc})
			}
			for j := 0; j < len(small[t.stem]); j++ {
				if tier != "thorough" && j%3 != 0 && j != len(small[t.stem])-1 {
					continue
				}
				fcases = append(fcases, fcase{small, map[string]int{t.stem: j}, fmt.Sprintf("three-word lists, %s.txt breaks off after %d of %d bytes", t.stem, j, len(small[t.stem]))})
			}
		}
		if tier == "thorough" {
			for a := range genTargets {
				for b := a + 1; b < len(genTargets); b++ {
					sa, sb := genTargets[a].stem, genTargets[b].stem
					fcases = append(fcases, fcase{canon.bodies, map[string]int{sa: len(canon.bodies[sa]) / 2, sb: len(canon.bodies[sb]) - 1}, fmt.Sprintf("canonical lists, %s.txt and %s.txt break off", sa, sb)})
				}
			}
		}
		for k, t := range genTargets {
			if tier == "thorough" || k%4 == 0 {
				fcases = append(fcases, fcase{small, map[string]int{"#block": k}, fmt.Sprintf("three-word lists, the output path of %s is a directory", t.stem)})
			}
		}
		// delivery patterns (no fault: the tool must succeed): bodies arrive in flushed pieces
		for _, n := range []int{1, 7, 1000, 4096} {
			fcases = append(fcases, fcase{canon.bodies, map[string]int{"#chunk": n}, fmt.Sprintf("canonical lists delivered in pieces of %d bytes", n)})
		}
		for _, n := range []int{1, 2, 5} {
			fcases = append(fcases, fcase{small, map[string]int{"#chunk": n}, fmt.Sprintf("three-word lists delivered in pieces of %d bytes", n)})
		}
		fprobs := make([][]string, len(fcases))
		ferrs := make([]error, len(fcases))
		fch := make(chan int, len(fcases))
		for i := range fcases {
			fch <- i
		}
		close(fch)
		var wg3 sync.WaitGroup
		for s := 0; s < nsrv; s++ {
			wg3.Add(1)
			go func() {
				defer wg3.Done()
				srv := newGenServer()
				defer srv.srv.Close()
				for i := range fch {
					fprobs[i], ferrs[i] = runGeneratorFault(tool, srv, fcases[i].bodies, "", fcases[i].cut)
				}
			}()
		}
		wg3.Wait()
		nRec := 0
		for i, fc := range fcases {
			if ferrs[i] != nil {
				die("generator fault run %s: %v", fc.desc, ferrs[i])
			}
			r.Evaluations += 10
			for _, p := range fprobs[i] {
				r.ViolationCount++
				if nRec < 6 && len(r.Violations) < 40 {
					nRec++
					cs := map[string]interface{}{"kind": "generator-fault", "bodies": map[string]string{}, "cut": fc.cut}
					for k, v := range fc.bodies {
						cs["bodies"].(map[string]string)[k] = fmt.Sprintf("%x", v)
					}
					r.Violations = append(r.Violations, Violation{Key: fmt.Sprintf("gen:fault:%s:%d", fc.desc, len(r.Violations)), What: fc.desc + ": " + p, Case: cs})
				}
			}
		}
		r.Extra["transport_fault_runs"] = len(fcases)
	}
	// regeneration histories: the tool is normally run over the files of an earlier run (the
	// committed ones). Every ordered pair of input shapes, two runs in the same directory: what the
	// second run leaves must be the second input's lists, whatever the first run wrote.
	{
		mk := func(n int) []byte {
			var b bytes.Buffer
			for i := 0; i < n; i++ {
				b.WriteString(synthWord(i*7 + n))
				b.WriteByte('\n')
			}
			return b.Bytes()
		}
		type shape struct {
			name   string
			bodies map[string][]byte
		}
		shapes := []shape{{"canonical", canon.bodies}}
		for _, n := range []int{0, 1, 3, 2048, 5000} {
			sh := shape{fmt.Sprintf("%d-words", n), map[string][]byte{}}
			for k, t := range genTargets {
				sh.bodies[t.stem] = mk(n + k%2*n/2) // neighbouring targets get different lengths
			}
			shapes = append(shapes, sh)
		}
		type regen struct{ a, b int }
		var pairs []regen
		for a := range shapes {
			for b := range shapes {
				pairs = append(pairs, regen{a, b})
			}
		}
		probsOf := make([][]string, len(pairs))
		errOf := make([]error, len(pairs))
		nRegenRecorded := 0
		pch := make(chan int, len(pairs))
		for i := range pairs {
			pch <- i
		}
		close(pch)
		var wg2 sync.WaitGroup
		for s := 0; s < nsrv; s++ {
			wg2.Add(1)
			go func() {
				defer wg2.Done()
				srv := newGenServer()
				defer srv.srv.Close()
				for i := range pch {
					dir, err := os.MkdirTemp(scratch, "regen-")
					if err != nil {
						errOf[i] = err
						continue
					}
					first, err := runGenerator(tool, srv, shapes[pairs[i].a].bodies, dir)
					if err == nil && len(first) == 0 {
						probsOf[i], errOf[i] = runGenerator(tool, srv, shapes[pairs[i].b].bodies, dir)
					} else {
						errOf[i] = err // a failing first run is reported by the single-run phase
					}
					os.RemoveAll(dir)
				}
			}()
		}
		wg2.Wait()
		for i, pr := range pairs {
			if errOf[i] != nil {
				die("regeneration run: %v", errOf[i])
			}
			r.Evaluations += 20
			for _, p := range probsOf[i] {
				r.ViolationCount++
				if nRegenRecorded < 6 && len(r.Violations) < 40 { // these replays carry twenty files each
					nRegenRecorded++
					cs := map[string]interface{}{"kind": "generator-regeneration", "bodies": map[string]string{}, "previous": map[string]string{}}
					for k, v := range shapes[pr.b].bodies {
						cs["bodies"].(map[string]string)[k] = fmt.Sprintf("%x", v)
					}
					for k, v := range shapes[pr.a].bodies {
						cs["previous"].(map[string]string)[k] = fmt.Sprintf("%x", v)
					}
					r.Violations = append(r.Violations, Violation{Key: fmt.Sprintf("gen:regen:%s->%s:%d", shapes[pr.a].name, shapes[pr.b].name, len(r.Violations)), What: fmt.Sprintf("second run (%s) in the directory of a first run (%s): %s", shapes[pr.b].name, shapes[pr.a].name, p), Case: cs})
				}
			}
		}
		r.Extra["regeneration_histories"] = len(pairs)
	}
	// canonical output must also reproduce the committed lists and compile with the real compiler
	{
		srv := newGenServer()
		dir, _ := os.MkdirTemp(scratch, "canon-")
		probs, err := runGenerator(tool, srv, canon.bodies, dir)
		srv.srv.Close()
		if err != nil {
			die("%v", err)
		}
		if len(probs) == 0 {
			var genDump, repoDump map[string][]string
			for _, t := range genTargets {
				_, _, got, gerr := parseGenerated(filepath.Join(dir, "internal", "wordlist", t.stem+".go"))
				if gerr != nil {
					// other representation: take the lists from the compiled generated package
					if genDump == nil {
						genDump, _ = dumpGenerated(dir)
					}
					got = genDump[t.variable]
				}
				_, _, committed, err := parseCommitted(filepath.Join(repoDir, "internal", "wordlist"), t.variable)
				if err != nil {
					// the committed lists are not string-literal slices either: ask the linked package
					if repoDump == nil {
						w := buildWorker()
						cmd := exec.Command(w, "-prop", "lists")
						cmd.Env = append(goEnv(), "VERIF_DIR="+verifDir)
						if o, e := cmd.Output(); e == nil {
							jsonUnmarshal(extractResult(o), &repoDump)
						}
					}
					if l, ok := repoDump[t.variable]; ok {
						committed, err = l, nil
					}
				}
				r.Evaluations++
				if err != nil || !equalLists(got, committed) {
					r.ViolationCount++
					r.Violations = append(r.Violations, Violation{Key: "gen:committed:" + t.stem, What: fmt.Sprintf("run on the canonical %s list the tool does not reproduce the committed wordlist.%s (%v)", t.stem, t.variable, err), Case: map[string]interface{}{"kind": "generator-canonical"}})
				}
			}
			os.WriteFile(filepath.Join(dir, "go.mod"), []byte("module gencheck\n\ngo 1.11\n"), 0644)
			if o, err := runCmd(dir, goEnv(), "go", "build", "./..."); err != nil {
				r.ViolationCount++
				r.Violations = append(r.Violations, Violation{Key: "gen:compile", What: "the files generated from the canonical lists do not compile: " + lastLines(o, 3), Case: map[string]interface{}{"kind": "generator-canonical"}})
			}
			if o, err := runCmd(dir, goEnv(), "go", "vet", "./..."); err != nil {
				r.Extra["go_vet_on_generated_files"] = lastLines(o, 2)
			}
		}
		os.RemoveAll(dir)
	}
	r.Distinct = int64(len(distinctLists))
	r.Rule = fmt.Sprintf("the real update-wordlist binary (built from the current tree with -tags verif) is run with its HTTP fetches redirected to a loopback server owned by the check; enumerated inputs: every file of <=%d lines over the line alphabet %+q (blank line, ASCII, precomposed and decomposed accents, Han, kana, conjoining jamo, letters beyond U+FFFF, letters of U+F900..U+FFFF whose first byte is the byte-order mark's 0xEF), with and without trailing LF, ten pairwise different files per tool run assigned to the ten targets by rotation (thorough: every file to every target), plus the size ladder 1/2047/2048/2049/5000/20000/100000 lines, files with words of 4095...2^20+1 letters and the ten canonical lists (with and without trailing LF). Oracle: tool exits 0, each of the ten expected URLs requested, each generated file parses and its variable holds exactly the non-empty input lines byte for byte in order (read from the []string literal, or, when the list is written in another representation, by compiling the generated package and printing its variables); canonical run reproduces the committed lists and compiles with go build; delivery patterns: the canonical and three-word lists arriving in flushed pieces of 1/7/1000/4096 resp. 1/2/5 bytes; transport faults: the transfer of one target (thorough: also of two) gets no answer at all or breaks off after 0, 1, half or all but one of the announced bytes (three-word lists: every third offset, thorough every offset) or the output path of one target cannot be opened (a directory sits there), and only a non-zero exit status or ten faithful files are acceptable; regeneration histories: every ordered pair of six input shapes (canonical, 0/1/3/2048/5000 words) as two runs in the same directory, the second run judged by the same oracle. distinct_nontrivial = distinct input files", maxLines, lineAlphabet)
	r.Extra["enumerated_files"] = nEnumerated
	r.Extra["tool_runs"] = len(batches) + 1
	r.Samples = append(r.Samples, map[string]interface{}{"input": "a\n\n\u00e9\nbc", "expected_list": []string{"a", "\u00e9", "bc"}}, map[string]interface{}{"input": batches[len(batches)/2].desc})
	r.Assumptions = []string{"input alphabet restricted to letters and combining marks, as the property states", "verif hook redirects scheme+host of the tool's requests only; path, client and body handling are the tool's own"}
	sort.Slice(r.Violations, func(i, j int) bool { return r.Violations[i].Key < r.Violations[j].Key })
	return finish("C17", tier, r, t0)
}

// parseCommitted finds variable in the committed internal/wordlist sources.
func parseCommitted(dir, variable string) (string, string, []string, error) {
	ents, err := os.ReadDir(dir)
	if err != nil {
		return "", "", nil, err
	}
	for _, e := range ents {
		if !strings.HasSuffix(e.Name(), ".go") || strings.HasSuffix(e.Name(), "_test.go") {
			continue
		}
		pkg, v, list, err := parseGenerated(filepath.Join(dir, e.Name()))
		if err == nil && v == variable {
			return pkg, v, list, nil
		}
	}
	return "", "", nil, fmt.Errorf("variable %s not found in %s", variable, dir)
}

func replayC17(path string) int {
	data, err := os.ReadFile(path)
	if err != nil {
		die("%v", err)
	}
	var rep struct {
		What string `json:"what"`
		Case struct {
			Bodies   map[string]string `json:"bodies"`
			Previous map[string]string `json:"previous"`
			Cut      map[string]int    `json:"cut"`
		} `json:"case"`
	}
	if err := jsonUnmarshal(data, &rep); err != nil {
		die("%v", err)
	}
	bodies := map[string][]byte{}
	for k, v := range rep.Case.Bodies {
		if strings.HasPrefix(v, "omitted:") {
			fmt.Println("replay: this case used a large generated file; re-run the check instead:", v)
			return 2
		}
		b := make([]byte, len(v)/2)
		fmt.Sscanf(v, "%x", &b)
		bodies[k] = b
	}
	tool := buildGeneratorTool()
	srv := newGenServer()
	defer srv.srv.Close()
	fmt.Printf("replaying C17 generator run\nrecorded: %s\n", rep.What)
	dir := ""
	if len(rep.Case.Previous) > 0 {
		// a regeneration history: first the earlier run, in the same directory
		prev := map[string][]byte{}
		for k, v := range rep.Case.Previous {
			b := make([]byte, len(v)/2)
			fmt.Sscanf(v, "%x", &b)
			prev[k] = b
		}
		dir, _ = os.MkdirTemp(scratch, "regen-")
		defer os.RemoveAll(dir)
		if p0, err := runGenerator(tool, srv, prev, dir); err != nil || len(p0) > 0 {
			fmt.Println("replay: the first run of the history already fails:", p0, err)
		}
	}
	probs, err := runGeneratorFault(tool, srv, bodies, dir, rep.Case.Cut)
	if err != nil {
		die("%v", err)
	}
	for _, p := range probs {
		fmt.Println(" " + p)
	}
	if len(probs) > 0 {
		fmt.Printf("VIOLATION property=C17 replay=%s\n", path)
		return 1
	}
	fmt.Println("replay: the generator reproduces these inputs on the current tree")
	return 0
}
