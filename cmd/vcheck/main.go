// Command vcheck is the driver of the verification machinery.
//
//	vcheck run <Cxx> [--tier quick|thorough]
//	vcheck replay <file>
//
// Every run rebuilds the worker from /repo's current working tree (build tag
// "verif") into a private scratch directory that is removed on exit.
// Exit codes: 0 held (KNOWN-FINDING lines allowed), 1 VIOLATION, 2 machinery failure.
package main

import (
	"bytes"
	"context"
	"crypto/sha256"
	"encoding/hex"
	"encoding/json"
	"fmt"
	"os"
	"os/exec"
	"path/filepath"
	"sort"
	"strconv"
	"strings"
	"time"
)

var verifDir = "/verif"
var repoDir = "/repo"
var outDir = "" // where evidence/ and replays/ are written (default verifDir)

func goEnv() []string {
	env := os.Environ()
	env = append(env, "GOFLAGS=-mod=mod", "GOPROXY=off", "GOSUMDB=off", "GOTOOLCHAIN=local", "CGO_ENABLED=0")
	return env
}

func die(format string, a ...interface{}) {
	fmt.Fprintf(os.Stderr, "vcheck: machinery failure: "+format+"\n", a...)
	cleanup()
	os.Exit(2)
}

var scratch string

func cleanup() {
	if scratch != "" {
		os.RemoveAll(scratch)
	}
}

func mkScratch() string {
	base := os.Getenv("VERIF_SCRATCH")
	if base == "" {
		if st, err := os.Stat("/dev/shm"); err == nil && st.IsDir() {
			base = "/dev/shm"
		} else {
			base = os.TempDir()
		}
	}
	// scratch directories of runs that were killed from outside (no chance to clean up) are removed
	// once they are older than any run can last
	if old, _ := filepath.Glob(filepath.Join(base, "vcheck-*")); len(old) > 0 {
		for _, o := range old {
			if st, err := os.Stat(o); err == nil && time.Since(st.ModTime()) > 12*time.Hour {
				os.RemoveAll(o)
			}
		}
	}
	d, err := os.MkdirTemp(base, "vcheck-")
	if err != nil {
		die("scratch: %v", err)
	}
	return d
}

func runCmd(dir string, env []string, name string, args ...string) (string, error) {
	cmd := exec.Command(name, args...)
	cmd.Dir = dir
	cmd.Env = env
	out, err := cmd.CombinedOutput()
	return string(out), err
}

// buildWorker builds cmd/worker against /repo (mode A).
func buildWorker(extraArgs ...string) string {
	return buildWorkerOv("worker", writeOverlay(), extraArgs...)
}

// buildWorkerV builds the worker against /repo with the package's import of
// crypto/rand redirected to the scripted stand-in verifshim/vrand.
func buildWorkerV() (string, int) {
	re := redirectImports("crypto/rand", "verifshim/vrand", "rand")
	return buildWorkerOv("worker_v", writeOverlay(re)), len(re)
}

// buildWorkerH builds the worker for the history engine: the package's sync and
// sync/atomic imports are redirected to the shims (no scheduling points are
// inserted), so that pooled objects are deterministic and visible to the state
// fingerprint.
func buildWorkerH() string {
	re := redirectImports("sync", "verifshim/vsync", "sync")
	for k, v := range redirectImports("sync/atomic", "verifshim/vatomic", "atomic") {
		if prev, dup := re[k]; dup {
			// a file importing both: redirect the second import inside the first copy
			data, _ := os.ReadFile(prev)
			data = []byte(strings.Replace(string(data), `"sync/atomic"`, `atomic "verifshim/vatomic"`, 1))
			os.WriteFile(prev, data, 0644)
			continue
		}
		re[k] = v
	}
	return buildWorkerOv("worker_hist", writeOverlay(re))
}

func buildWorkerOv(name, overlay string, extraArgs ...string) string {
	out := filepath.Join(scratch, name)
	args := []string{"build", "-tags", "verif", "-overlay", overlay}
	if repoDir != "/repo" {
		// alternative tree (used to try seeded changes without touching /repo): same module
		// file with the replace directive pointed at it
		mod, err := os.ReadFile(filepath.Join(verifDir, "go.mod"))
		if err != nil {
			die("%v", err)
		}
		m2 := strings.Replace(string(mod), "=> /repo", "=> "+repoDir, 1)
		m2 = strings.Replace(m2, "=> ./shim", "=> "+filepath.Join(verifDir, "shim"), 1)
		sum, _ := os.ReadFile(filepath.Join(verifDir, "go.sum"))
		os.WriteFile(filepath.Join(scratch, "go.mod"), []byte(m2), 0644)
		os.WriteFile(filepath.Join(scratch, "go.sum"), sum, 0644)
		args = append(args, "-modfile="+filepath.Join(scratch, "go.mod"))
	}
	args = append(args, extraArgs...)
	args = append(args, "-o", out, "./cmd/worker")
	if o, err := runCmd(verifDir, goEnv(), "go", args...); err != nil {
		die("building the worker against %s failed:\n%s", repoDir, o)
	}
	return out
}

// Result mirrors the worker's result file.
type Result struct {
	Property       string                 `json:"property"`
	Tier           string                 `json:"tier"`
	Evaluations    int64                  `json:"evaluations"`
	Distinct       int64                  `json:"distinct_nontrivial"`
	Rule           string                 `json:"rule"`
	Samples        []interface{}          `json:"samples"`
	Extra          map[string]interface{} `json:"extra"`
	Scopes         []interface{}          `json:"scopes"`
	Violations     []Violation            `json:"violations"`
	ViolationCount int64                  `json:"violation_count"`
	KnownHits      map[string]int64       `json:"known_hits"`
	Exhaustive     bool                   `json:"exhaustive"`
	States         int64                  `json:"states,omitempty"`
	Transitions    int64                  `json:"transitions,omitempty"`
	Assumptions    []string               `json:"assumptions"`
	MachineryError string                 `json:"machinery_error,omitempty"`
	WallS          float64                `json:"wall_s"`
}

type Violation struct {
	Key  string                 `json:"key"`
	What string                 `json:"what"`
	Case map[string]interface{} `json:"case"`
}

type Known struct {
	Property string `json:"property"`
	Status   string `json:"status"`
	Key      string `json:"key,omitempty"`
	Commit   string `json:"commit,omitempty"`
	What     string `json:"what"`
}

func loadKnown() []Known {
	data, err := os.ReadFile(filepath.Join(verifDir, "known_findings.json"))
	if err != nil {
		return nil
	}
	var kf struct {
		Findings []Known `json:"findings"`
	}
	if err := json.Unmarshal(data, &kf); err != nil {
		die("known_findings.json: %v", err)
	}
	return kf.Findings
}

var levels = map[string]string{
	"C01": "exploration", "C02": "exploration", "C03": "exploration", "C04": "exploration", "C05": "exploration",
	"C06": "fault_enumeration", "C07": "model_checking", "C08": "exploration", "C09": "exploration",
	"C10": "exploration", "C11": "exploration", "C12": "exploration", "C13": "model_checking",
	"C14": "exploration", "C15": "exploration", "C16": "exploration", "C17": "exploration",
}

func seed() int64 {
	s, _ := strconv.ParseInt(os.Getenv("VERIF_SEED"), 10, 64)
	return s
}

// finish turns a worker result into stdout lines, replay files, the evidence
// file and the exit code.
func finish(prop, tier string, r *Result, t0 time.Time) int {
	if r.MachineryError != "" {
		die("%s", r.MachineryError)
	}
	known := loadKnown()
	for _, k := range known {
		if k.Property == prop && k.Status == "known" && r.KnownHits[k.Key] > 0 {
			fmt.Printf("KNOWN-FINDING: property=%s %s [%s]\n", prop, k.What, k.Key)
		}
	}
	os.MkdirAll(filepath.Join(outDir, "replays"), 0755)
	for _, v := range r.Violations {
		h := sha256.Sum256([]byte(v.Key))
		path := filepath.Join(outDir, "replays", fmt.Sprintf("%s-%s.json", prop, hex.EncodeToString(h[:6])))
		rep := map[string]interface{}{"property": prop, "key": v.Key, "what": v.What, "case": v.Case, "tier": tier}
		data, _ := json.MarshalIndent(rep, "", " ")
		if err := os.WriteFile(path, data, 0644); err != nil {
			die("writing replay: %v", err)
		}
		fmt.Printf("VIOLATION property=%s replay=%s\n", prop, path)
		fmt.Printf("  %s\n", v.What)
	}
	if r.ViolationCount > int64(len(r.Violations)) {
		fmt.Printf("  (%d violating cases in total; %d written out)\n", r.ViolationCount, len(r.Violations))
	}
	cov := map[string]interface{}{
		"evaluations":         r.Evaluations,
		"distinct_nontrivial": r.Distinct,
		"rule":                r.Rule,
		"samples":             r.Samples,
		"exhaustive":          r.Exhaustive,
		"scopes":              r.Scopes,
	}
	keys := make([]string, 0, len(r.Extra))
	for k := range r.Extra {
		keys = append(keys, k)
	}
	sort.Strings(keys)
	for _, k := range keys {
		cov[k] = r.Extra[k]
	}
	if levels[prop] == "model_checking" {
		cov["states"] = r.States
		cov["transitions"] = r.Transitions
		if _, ok := cov["traces_validated_against_impl"]; !ok {
			cov["traces_validated_against_impl"] = r.Transitions
		}
	}
	if r.Assumptions == nil {
		r.Assumptions = []string{}
	}
	r.Assumptions = append(r.Assumptions, "trusted base: Go 1.23.5 toolchain/stdlib, golden list digests, this machinery; the worker was rebuilt from /repo's working tree with -tags verif for this run")
	var khits int64
	for _, n := range r.KnownHits {
		khits += n
	}
	cov["known_finding_hits"] = khits
	ev := map[string]interface{}{
		"property_id": prop,
		"tier":        tier,
		"seed":        seed(),
		"level":       levels[prop],
		"coverage":    cov,
		"assumptions": r.Assumptions,
		"wall_s":      time.Since(t0).Seconds(),
		"violations":  r.ViolationCount,
	}
	data, _ := json.MarshalIndent(ev, "", " ")
	os.MkdirAll(filepath.Join(outDir, "evidence"), 0755)
	if err := os.WriteFile(filepath.Join(outDir, "evidence", prop+".json"), append(data, '\n'), 0644); err != nil {
		die("writing evidence: %v", err)
	}
	fmt.Printf("%s tier=%s evaluations=%d distinct=%d exhaustive=%v violations=%d known_hits=%d wall=%.1fs\n",
		prop, tier, r.Evaluations, r.Distinct, r.Exhaustive, r.ViolationCount, khits, time.Since(t0).Seconds())
	if r.ViolationCount > 0 {
		return 1
	}
	return 0
}

// runWorkerCheck is the generic path: build worker, run one in-process
// exploration, finish.
func runWorkerCheck(prop, tier string) int {
	t0 := time.Now()
	w := buildWorker()
	resFile := filepath.Join(scratch, "result.json")
	run := func(extra ...string) (error, string) {
		args := append([]string{"-prop", prop, "-tier", tier, "-verif", verifDir, "-out", resFile, "-seed", strconv.FormatInt(seed(), 10)}, extra...)
		limit := 45 * time.Minute
		if tier == "thorough" {
			limit = 6 * time.Hour
		}
		ctx, cancel := context.WithTimeout(context.Background(), limit)
		defer cancel()
		cmd := exec.CommandContext(ctx, w, args...)
		var stderr bytes.Buffer
		cmd.Stdout = os.Stderr
		cmd.Stderr = &stderr
		cmd.Env = append(os.Environ(), "VERIF_SCRATCH_DIR="+scratch, "VERIF_REPO="+repoDir)
		err := cmd.Run()
		if ctx.Err() != nil {
			return fmt.Errorf("the exploration did not finish within %v (a call into the package under test seems to hang or to be extremely slow)", limit), stderr.String()
		}
		return err, stderr.String()
	}
	err, stderr := run()
	if err != nil && strings.Contains(stderr, "fatal error: concurrent map") {
		// the code under test is not safe for concurrent use (C12's business) and killed the
		// parallel evaluation: evaluate this property's inputs sequentially instead
		fmt.Fprintln(os.Stderr, "vcheck: the package crashed under parallel evaluation (concurrent map access); re-running sequentially")
		err, stderr = run("-ncpu", "1")
	}
	if err != nil {
		os.Stderr.WriteString(lastLinesN(stderr, 30))
		die("worker failed: %v", err)
	}
	os.Stderr.WriteString(stderr)
	var r Result
	data, err := os.ReadFile(resFile)
	if err != nil {
		die("no result: %v", err)
	}
	if err := json.Unmarshal(data, &r); err != nil {
		die("bad result: %v", err)
	}
	return finish(prop, tier, &r, t0)
}

var special = map[string]func(tier string) int{}

func main() {
	if v := os.Getenv("VERIF_DIR"); v != "" {
		verifDir = v
	}
	if v := os.Getenv("VERIF_REPO"); v != "" {
		repoDir = v
	}
	outDir = verifDir
	if v := os.Getenv("VERIF_OUT"); v != "" {
		outDir = v
	}
	if len(os.Args) < 3 && !(len(os.Args) >= 2 && os.Args[1] == "warm") {
		fmt.Fprintln(os.Stderr, "usage: vcheck run <Cxx> [--tier quick|thorough] | vcheck replay <file>")
		os.Exit(2)
	}
	scratch = mkScratch()
	code := 2
	func() {
		defer cleanup()
		switch os.Args[1] {
		case "run":
			prop := os.Args[2]
			tier := os.Getenv("VERIF_TIER")
			for i := 3; i < len(os.Args); i++ {
				if os.Args[i] == "--tier" && i+1 < len(os.Args) {
					tier = os.Args[i+1]
				} else if strings.HasPrefix(os.Args[i], "--tier=") {
					tier = strings.TrimPrefix(os.Args[i], "--tier=")
				}
			}
			if tier != "thorough" {
				tier = "quick"
			}
			if _, ok := levels[prop]; !ok {
				die("unknown property %q", prop)
			}
			if f, ok := special[prop]; ok {
				code = f(tier)
			} else {
				code = runWorkerCheck(prop, tier)
			}
		case "warm":
			buildWorker()
			buildWorkerH()
			ov, _ := instrumentPackage(false)
			buildWorkerOv("worker_sched", writeOverlay(ov))
			ovd, _ := instrumentPackage(true)
			buildWorkerOv("worker_dense", writeOverlay(ovd))
			buildWorkerV()
			racePass(nil, false, newHistResult("C12", "quick"))
			if len(os.Args) > 2 {
				// keep a copy of the instrumented worker for manual experiments
				data, _ := os.ReadFile(filepath.Join(scratch, "worker"))
				os.WriteFile(os.Args[2], data, 0755)
				for _, f := range []string{"instr_lang.go", "instr_entropy.go", "zz_verif_sites_gen.go"} {
					if d, err := os.ReadFile(filepath.Join(scratch, f)); err == nil {
						os.WriteFile(os.Args[2]+"."+f, d, 0644)
					}
				}
			}
			code = 0
		case "replay":
			code = replay(os.Args[2])
		default:
			fmt.Fprintln(os.Stderr, "unknown command", os.Args[1])
		}
	}()
	os.Exit(code)
}

// replay re-executes one recorded case against the current tree.
func replay(path string) int {
	data, err := os.ReadFile(path)
	if err != nil {
		die("%v", err)
	}
	var rep struct {
		Property string `json:"property"`
	}
	if err := json.Unmarshal(data, &rep); err != nil {
		die("%v", err)
	}
	if f, ok := specialReplay[rep.Property]; ok {
		return f(path)
	}
	w := buildWorker()
	cmd := exec.Command(w, "-prop", "replay", "-verif", verifDir, path)
	cmd.Stdout = os.Stdout
	cmd.Stderr = os.Stderr
	if err := cmd.Run(); err != nil {
		if ee, ok := err.(*exec.ExitError); ok {
			return ee.ExitCode()
		}
		die("%v", err)
	}
	return 0
}

var specialReplay = map[string]func(path string) int{}

func lastLinesN(s string, n int) string {
	l := strings.Split(s, "\n")
	if len(l) > n {
		l = l[len(l)-n:]
	}
	return strings.Join(l, "\n")
}

func readFile(p string) ([]byte, error) { return os.ReadFile(p) }

func jsonUnmarshal(data []byte, v interface{}) error { return json.Unmarshal(data, v) }

// extractResult returns the JSON document a worker sub-command printed behind the result marker
// (the last one, should the code under test have printed something similar itself).
func extractResult(out []byte) []byte {
	const marker = "VERIF-RESULT-7f3a9c "
	i := bytes.LastIndex(out, []byte(marker))
	if i < 0 {
		return out
	}
	rest := out[i+len(marker):]
	if j := bytes.IndexByte(rest, '\n'); j >= 0 {
		rest = rest[:j]
	}
	return rest
}
