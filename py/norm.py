#!/usr/bin/env python3
"""Independent Unicode oracle (CPython unicodedata, Unicode 14) used by the checks.

Modes (argv[1]):
  norm      stdin lines "<FORM> <hex utf-8>"  -> stdout lines "=<hex utf-8 of normal form>"
  variants  argv[2] = golden dir, argv[3] = output dir: for every golden word write every
            spelling obtained by replacing one substring by a single code point whose NFKD is
            exactly that substring (compatibility / precomposed variants), plus the NFC, NFD,
            NFKC and full-width spellings of the whole word.
  decomp    argv[2] = output dir: every assigned code point with NFKD != itself
  pbkdf2    stdin lines "<hex password> <hex salt>" -> hex of PBKDF2-HMAC-SHA512(2048, 64) (OpenSSL)
  version   prints unicodedata.unidata_version
"""
import sys, os, unicodedata, hashlib, binascii

def mode_norm():
    out = []
    for line in sys.stdin:
        line = line.rstrip("\n")
        if not line:
            continue
        form, _, hx = line.partition(" ")
        s = bytes.fromhex(hx).decode("utf-8")
        out.append("=" + unicodedata.normalize(form, s).encode("utf-8").hex())
    sys.stdout.write("\n".join(out) + ("\n" if out else ""))

FILES = ["chinese_simplified", "chinese_traditional", "english", "french", "italian",
         "japanese", "korean", "spanish", "czech", "portuguese"]

def mode_variants(golden, outdir):
    os.makedirs(outdir, exist_ok=True)
    lists = {}
    alphabet = set()
    for f in FILES:
        words = open(os.path.join(golden, f + ".txt"), encoding="utf-8").read().split("\n")[:-1]
        assert len(words) == 2048
        for w in words:
            assert unicodedata.normalize("NFKD", w) == w, (f, w)
            alphabet.update(w)
        lists[f] = words
    # expansions: NFKD string -> code points that decompose to exactly it
    exp = {}
    for cp in range(0x110000):
        if 0xD800 <= cp <= 0xDFFF:
            continue
        ch = chr(cp)
        if unicodedata.category(ch) == "Cn":
            continue  # unassigned in Unicode 14: both oracles need not agree
        d = unicodedata.normalize("NFKD", ch)
        if d == ch:
            continue
        if all(c in alphabet for c in d):
            exp.setdefault(d, []).append(cp)
    maxlen = max(len(k) for k in exp)
    stats = {}
    for f in FILES:
        n = 0
        final = os.path.join(outdir, "variants_" + f + ".tsv")
        with open(final + ".tmp%d" % os.getpid(), "w", encoding="ascii") as o:
            for idx, w in enumerate(lists[f]):
                seen = {w}
                def put(tag, s):
                    nonlocal n
                    if s in seen:
                        return
                    assert unicodedata.normalize("NFKD", s) == w, (f, w, s)
                    seen.add(s)
                    o.write("%d\t%s\t%s\n" % (idx, tag, s.encode("utf-8").hex()))
                    n += 1
                put("NFC", unicodedata.normalize("NFC", w))
                put("NFD", unicodedata.normalize("NFD", w))
                put("NFKC", unicodedata.normalize("NFKC", w))
                if all(0x21 <= ord(c) <= 0x7E for c in w):
                    put("FULLWIDTH", "".join(chr(ord(c) + 0xFEE0) for c in w))
                for i in range(len(w)):
                    for ln in range(1, maxlen + 1):
                        sub = w[i:i + ln]
                        if len(sub) < ln:
                            break
                        for cp in exp.get(sub, ()):
                            s = w[:i] + chr(cp) + w[i + ln:]
                            # a variant must still normalise to the word (context can matter for
                            # canonical reordering); keep only those that do
                            if unicodedata.normalize("NFKD", s) == w:
                                put("V%04X@%d" % (cp, i), s)
        os.replace(final + ".tmp%d" % os.getpid(), final)  # atomic: concurrent generators cannot leave a partial table
        stats[f] = n
    with open(os.path.join(outdir, "variants.ok.tmp%d" % os.getpid()), "w") as o:
        o.write(repr(stats) + "\n" + unicodedata.unidata_version + "\n")
    os.replace(os.path.join(outdir, "variants.ok.tmp%d" % os.getpid()), os.path.join(outdir, "variants.ok"))
    print("variants:", stats)

def mode_decomp(outdir):
    """Every assigned code point whose NFKD differs from itself: 'cp<TAB>hex(NFKD)<TAB>kind'."""
    os.makedirs(outdir, exist_ok=True)
    n = 0
    final = os.path.join(outdir, "decomp.tsv")
    with open(final + ".tmp%d" % os.getpid(), "w", encoding="ascii") as o:
        for cp in range(0x110000):
            if 0xD800 <= cp <= 0xDFFF:
                continue
            ch = chr(cp)
            if unicodedata.category(ch) == "Cn":
                continue
            d = unicodedata.normalize("NFKD", ch)
            if d == ch:
                continue
            kind = "hangul" if 0xAC00 <= cp <= 0xD7A3 else ("canonical" if unicodedata.normalize("NFD", ch) == d else "compat")
            o.write("%X\t%s\t%s\n" % (cp, d.encode("utf-8").hex(), kind))
            n += 1
    os.replace(final + ".tmp%d" % os.getpid(), final)
    print("decomp:", n)

def mode_pbkdf2():
    for line in sys.stdin:
        a, _, b = line.rstrip("\n").partition(" ")
        print(hashlib.pbkdf2_hmac("sha512", bytes.fromhex(a), bytes.fromhex(b), 2048, 64).hex())

if __name__ == "__main__":
    m = sys.argv[1]
    if m == "norm":
        mode_norm()
    elif m == "variants":
        mode_variants(sys.argv[2], sys.argv[3])
    elif m == "decomp":
        mode_decomp(sys.argv[2])
    elif m == "pbkdf2":
        mode_pbkdf2()
    elif m == "version":
        print(unicodedata.unidata_version)
    else:
        sys.exit("unknown mode")
